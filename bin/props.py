"""Per-property pipelines.  Each returns
   {'level', 'coverage', 'assumptions', 'failures': [ {kinds, input/..., expected, observed} ]}"""
import json, os, collections

ASSUME_COMMON = [
    'TLC, SANY, the CommunityModules Json/IOUtils modules and the JVM are trusted',
    'the Rust projection code in harness/ (AST <-> JSON, text <-> code points) and its plain-equality comparison are trusted; it contains no oracle logic',
]


class Ctx:
    def __init__(self, prop, tier, seed, tools):
        self.prop, self.tier, self.seed, self.t = prop, tier, seed, tools
        self.quick = tier != 'thorough'
        self.work = tools.WORK


def pick(ctx, q, t):
    return q if ctx.quick else t


PARSE_KINDS_TREE = {'tree-mismatch', 'accepted-invalid', 'rejected-valid', 'panic', 'opts-mismatch', 'timeout'}
PARSE_KINDS_ERRTEXT = {'errtext-empty', 'errtext-keyword', 'errtext-word', 'errtext-foreign-quote'}


def keep(fails, kinds):
    out = []
    for f in fails:
        k = [x for x in f.get('kinds', []) if x in kinds]
        if k:
            g = dict(f)
            g['kinds'] = k
            out.append(g)
    return out


class Acc:
    """accumulates coverage over stages"""
    def __init__(self):
        self.states = 0
        self.transitions = 0
        self.traces = 0
        self.samples = []
        self.failures = []
        self.stages = []
        self.distinct = 0

    def add_stage(self, name, st, n_impl=0, samples=(), extra=None):
        self.states += st.get('states', 0)
        self.transitions += st.get('transitions', 0)
        self.traces += n_impl
        for s in list(samples)[:3]:
            if len(self.samples) < 12:
                self.samples.append({'stage': name, 'case': s})
        d = {'stage': name, 'states': st.get('states', 0), 'transitions': st.get('transitions', 0),
             'validated_against_impl': n_impl, 'wall_s': round(st.get('wall_s', 0), 1), 'cmd': st.get('cmd', '')}
        if extra:
            d.update(extra)
        self.stages.append(d)

    def coverage(self, exhaustive, rule, extra=None):
        c = {'states': self.states, 'transitions': self.transitions,
             'traces_validated_against_impl': self.traces, 'samples': self.samples,
             'evaluations': self.traces, 'distinct_nontrivial': self.distinct, 'rule': rule,
             'exhaustive': exhaustive, 'stages': self.stages}
        if extra:
            c.update(extra)
        return c


def g_parse(ctx, acc, name, module, cfg, kinds, timeout=1500, extra=(), profile='dev', workers=16):
    """spec -> impl: TLC prints vectors, the real parser is run on each"""
    st, summ, fails = ctx.t.run_tlc_replay(name, module, cfg, ['replay-parse'], timeout, extra=extra, profile=profile, workers=workers)
    acc.add_stage(name, st, summ.get('vectors', 0), summ.get('samples', []),
                  {'expected_ok': summ.get('expected_ok'), 'expected_rej': summ.get('expected_rej'), 'unspec': summ.get('unspec')})
    acc.distinct += summ.get('vectors', 0) - summ.get('unspec', 0)
    for f in keep(fails, kinds):
        f['stage'] = name
        acc.failures.append(f)
    return summ


def t_parse(ctx, acc, name, rec_args, kinds, timeout=900, profile='dev'):
    """impl -> spec: record executions of parse(), TLC judges each against the spec"""
    trace = '%s/%s.ndjson' % (ctx.work, name)
    wd = ctx.t.record(['record-parse'] + rec_args, trace, profile=profile)
    recs = [json.loads(l) for l in open(trace) if l.startswith('{')]
    st, verdicts = ctx.t.validate_trace(name, 'Trace_Parse', trace, timeout)
    if len(verdicts) != len(recs):
        raise ctx.t.ToolError('trace validation judged %d of %d records' % (len(verdicts), len(recs)))
    cls = collections.Counter(v['cls'] for v in verdicts)
    distinct = len(set(tuple(r['i']) for r, v in zip(recs, sorted(verdicts, key=lambda v: v['idx'])) if v['cls'] != 'unspec'))
    samples = [{'input': ctx.t.text_of(r['i']), 'observed': r['obs']['st']} for r in recs[:3]]
    acc.add_stage(name, st, len(recs), samples, {'classes': dict(cls)})
    acc.distinct += distinct
    for v in verdicts:
        if v['kinds']:
            r = recs[v['idx'] - 1]
            f = {'kinds': v['kinds'], 'input': ctx.t.text_of(r['i']), 'i': r['i'], 'observed': r['obs'], 'stage': name}
            acc.failures.extend(keep([f], kinds))
    for f in wd:
        f['stage'] = name
        acc.failures.append(f)
    return cls


def result(level, acc, exhaustive, rule, assumptions, extra=None):
    return {'level': level, 'coverage': acc.coverage(exhaustive, rule, extra), 'assumptions': ASSUME_COMMON + assumptions,
            'failures': acc.failures}


# =========================================================================== C01
def c01(ctx):
    acc = Acc()
    mlen = pick(ctx, 5, 7)
    # M: the two grammar definitions agree, structural facts, on abstract token classes
    st, js = ctx.t.run_tlc_only('c01m', 'MC_C01',
        'CONSTANT MaxLen = %d\nINIT Init\nNEXT NextTok\nINVARIANT InvClimbIsDecl\nINVARIANT InvStructure\nINVARIANT InvNoPrefix\nCHECK_DEADLOCK FALSE\n' % mlen,
        timeout=3000)
    if st['errors']:
        # the specification contradicts itself: that is a defect of the machinery, not of the code
        raise ctx.t.ToolError('model-level check failed: ' + ' | '.join(st['errors'][:2]))
    acc.add_stage('M climb=decl over token classes, len<=%d' % mlen, st)
    msize = pick(ctx, 5, 7)
    st, js = ctx.t.run_tlc_only('c01t', 'MC_C01T',
        'CONSTANT MaxSize = %d\nINIT Init\nNEXT Next\nINVARIANT InvRoundTrip\nCHECK_DEADLOCK FALSE\n' % msize, timeout=3000)
    if st['errors']:
        raise ctx.t.ToolError('model-level check failed: ' + ' | '.join(st['errors'][:2]))
    acc.add_stage('M print/parse round trip over trees, size<=%d' % msize, st)
    # G: all word sequences over the 11 spellings
    glen = pick(ctx, 5, 6)
    g_parse(ctx, acc, 'c01g', 'MC_C01',
            'CONSTANT MaxLen = %d\nINIT Init\nNEXT Next\nINVARIANT EmitVector\nCHECK_DEADLOCK FALSE\n' % glen, PARSE_KINDS_TREE)
    # G: trees with redundant parentheses printed as text
    g_parse(ctx, acc, 'c01gt', 'MC_C01T',
            'CONSTANT MaxSize = %d\nINIT Init\nNEXT Next\nINVARIANT EmitVector\nCHECK_DEADLOCK FALSE\n' % pick(ctx, 4, 6), PARSE_KINDS_TREE)
    if not ctx.quick:
        # long random behaviours of the generator machine
        g_parse(ctx, acc, 'c01gs', 'MC_C01',
                'CONSTANT MaxLen = 40\nINIT Init\nNEXT Next\nINVARIANT EmitVector\nCHECK_DEADLOCK FALSE\n', PARSE_KINDS_TREE,
                extra=['-simulate', 'num=3000', '-depth', '41', '-seed', str(ctx.seed)], workers=1)
    # T: recorded executions on random well-formed expressions and long word sequences
    t_parse(ctx, acc, 'c01t_rec', ['--mode', 'c01', '--count', str(pick(ctx, 4000, 40000)), '--seed', str(ctx.seed)], PARSE_KINDS_TREE)
    return result('model_checking', acc, True,
                  'all word sequences over {( ) ! , -a -and -o -or -true "-name x" -print} up to length %d joined by single blanks (TLC state graph), all trees up to size %d with 14 redundant-parenthesis masks, plus seeded random expressions (depth<=8) and word sequences (7..40 words); distinct = distinct inputs with a specified verdict' % (glen, msize),
                  ['oracle: Grammar.tla Decl (last lowest-precedence split), checked equal to the precedence-climbing transcription Climb on every token sequence up to the bound'])


REGISTRY = {'C01': c01}


def run(ctx):
    if ctx.prop not in REGISTRY:
        raise ctx.t.ToolError('no check registered for ' + ctx.prop)
    return REGISTRY[ctx.prop](ctx)


def replay(ctx, path):
    """re-run one saved failure through the same specification evaluation"""
    d = json.load(open(path))
    fl = d['failure']
    acc = Acc()
    if 'i' in fl or isinstance(fl.get('input'), str):
        cps = fl.get('i') or [ord(c) for c in fl['input']]
        inp = '%s/replay_in.ndjson' % ctx.work
        # the recorder re-observes the current code; TLC judges
        with open(inp, 'w') as f:
            f.write(json.dumps({'i': cps}) + '\n')
        trace = '%s/replay_trace.ndjson' % ctx.work
        ctx.t.record(['record-parse', '--from', inp], trace)
        st, verdicts = ctx.t.validate_trace('replay', 'Trace_Parse', trace, 300, stride=1)
        recs = [json.loads(l) for l in open(trace)]
        for v in verdicts:
            if v['kinds']:
                r = recs[v['idx'] - 1]
                acc.failures.append({'kinds': v['kinds'], 'input': ctx.t.text_of(r['i']), 'i': r['i'], 'observed': r['obs']})
        acc.add_stage('replay', st, len(recs), [{'input': ctx.t.text_of(cps)}])
        acc.distinct = 2
        return result('model_checking', acc, False, 'replay of one saved case', [])
    raise ctx.t.ToolError('replay of this failure shape is not supported yet')
