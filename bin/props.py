"""Per-property pipelines.  Each returns
   {'level', 'coverage', 'assumptions', 'failures': [ {kinds, input/..., expected, observed} ]}"""
import json, os, collections

ASSUME_COMMON = [
    'TLC, SANY, the CommunityModules Json/IOUtils modules and the JVM are trusted',
    'the Rust projection code in harness/ (AST <-> JSON, text <-> code points) and its plain-equality comparison are trusted; it contains no oracle logic',
]


class Ctx:
    def __init__(self, prop, tier, seed, tools):
        self.prop, self.tier, self.seed, self.t = prop, tier, seed, tools
        self.quick = tier != 'thorough'
        self.work = tools.WORK


def pick(ctx, q, t):
    return q if ctx.quick else t


PARSE_KINDS_TREE = {'after-related-input', 'tree-mismatch', 'accepted-invalid', 'rejected-valid', 'panic', 'opts-mismatch', 'timeout', 'option-in-tree'}
PARSE_KINDS_ERRTEXT = {'errtext-empty', 'errtext-keyword', 'errtext-word', 'errtext-foreign-quote'}


def keep(fails, kinds):
    out = []
    for f in fails:
        k = [x for x in f.get('kinds', []) if x in kinds]
        if k:
            g = dict(f)
            g['kinds'] = k
            out.append(g)
    return out


class Acc:
    """accumulates coverage over stages"""
    def __init__(self):
        self.states = 0
        self.transitions = 0
        self.traces = 0
        self.samples = []
        self.failures = []
        self.stages = []
        self.distinct = 0

    def add_stage(self, name, st, n_impl=0, samples=(), extra=None):
        self.states += st.get('states', 0)
        self.transitions += st.get('transitions', 0)
        self.traces += n_impl
        for s in list(samples)[:3]:
            if len(self.samples) < 12:
                self.samples.append({'stage': name, 'case': s})
        d = {'stage': name, 'states': st.get('states', 0), 'transitions': st.get('transitions', 0),
             'validated_against_impl': n_impl, 'wall_s': round(st.get('wall_s', 0), 1), 'cmd': st.get('cmd', '')}
        if extra:
            d.update(extra)
        self.stages.append(d)

    def coverage(self, exhaustive, rule, extra=None):
        c = {'states': self.states, 'transitions': self.transitions,
             'traces_validated_against_impl': self.traces, 'samples': self.samples,
             'evaluations': self.traces, 'distinct_nontrivial': self.distinct, 'rule': rule,
             'exhaustive': exhaustive, 'stages': self.stages}
        if extra:
            c.update(extra)
        return c


def g_parse(ctx, acc, name, module, cfg, kinds, timeout=1500, extra=(), profile='dev', workers=16):
    """spec -> impl: TLC prints vectors, the real parser is run on each"""
    st, summ, fails = ctx.t.run_tlc_replay(name, module, cfg, ['replay-parse'], timeout, extra=extra, profile=profile, workers=workers)
    acc.add_stage(name, st, summ.get('vectors', 0), summ.get('samples', []),
                  {'expected_ok': summ.get('expected_ok'), 'expected_rej': summ.get('expected_rej'), 'unspec': summ.get('unspec')})
    acc.distinct += summ.get('distinct', 0)
    for f in keep(fails, kinds):
        f['stage'] = name
        acc.failures.append(f)
    return summ


def t_parse(ctx, acc, name, rec_args, kinds, timeout=900, profile='dev'):
    """impl -> spec: record executions of parse(), TLC judges each against the spec"""
    trace = '%s/%s.ndjson' % (ctx.work, name)
    wd = ctx.t.record(['record-parse'] + rec_args, trace, profile=profile)
    recs = [json.loads(l) for l in open(trace) if l.startswith('{')]
    st, verdicts = ctx.t.validate_trace(name, 'Trace_Parse', trace, timeout)
    if len(verdicts) != len(recs):
        raise ctx.t.ToolError('trace validation judged %d of %d records' % (len(verdicts), len(recs)))
    cls = collections.Counter(v['cls'] for v in verdicts)
    distinct = len(set(tuple(r['i']) for r, v in zip(recs, sorted(verdicts, key=lambda v: v['idx'])) if v['cls'] != 'unspec'))
    samples = [{'input': ctx.t.text_of(r['i']), 'observed': r['obs']['st']} for r in recs[:3]]
    acc.add_stage(name, st, len(recs), samples, {'classes': dict(cls)})
    acc.distinct += distinct
    for v in verdicts:
        if v['kinds']:
            r = recs[v['idx'] - 1]
            f = {'kinds': v['kinds'], 'input': ctx.t.text_of(r['i']), 'i': r['i'], 'observed': r['obs'], 'stage': name}
            acc.failures.extend(keep([f], kinds))
    for f in wd:
        f['stage'] = name
        acc.failures.append(f)
    return cls


def result(level, acc, exhaustive, rule, assumptions, extra=None):
    return {'level': level, 'coverage': acc.coverage(exhaustive, rule, extra), 'assumptions': ASSUME_COMMON + assumptions,
            'failures': acc.failures}


# =========================================================================== C01
def c01(ctx):
    acc = Acc()
    mlen = pick(ctx, 5, 7)
    # M: the two grammar definitions agree, structural facts, on abstract token classes
    st, js = ctx.t.run_tlc_only('c01m', 'MC_C01',
        'CONSTANT MaxLen = %d\nINIT Init\nNEXT NextTok\nINVARIANT InvClimbIsDecl\nINVARIANT InvStructure\nINVARIANT InvNoPrefix\nCHECK_DEADLOCK FALSE\n' % mlen,
        timeout=3000)
    if st['errors']:
        # the specification contradicts itself: that is a defect of the machinery, not of the code
        raise ctx.t.ToolError('model-level check failed: ' + ' | '.join(st['errors'][:2]))
    acc.add_stage('M climb=decl over token classes, len<=%d' % mlen, st)
    msize = pick(ctx, 5, 7)
    st, js = ctx.t.run_tlc_only('c01t', 'MC_C01T',
        'CONSTANT MaxSize = %d\nINIT Init\nNEXT Next\nINVARIANT InvRoundTrip\nCHECK_DEADLOCK FALSE\n' % msize, timeout=3000)
    if st['errors']:
        raise ctx.t.ToolError('model-level check failed: ' + ' | '.join(st['errors'][:2]))
    acc.add_stage('M print/parse round trip over trees, size<=%d' % msize, st)
    # G: all word sequences over the 11 spellings
    glen = pick(ctx, 5, 6)
    g_parse(ctx, acc, 'c01g', 'MC_C01',
            'CONSTANT MaxLen = %d\nINIT Init\nNEXT Next\nINVARIANT EmitVector\nCHECK_DEADLOCK FALSE\n' % glen, PARSE_KINDS_TREE)
    # G: trees with redundant parentheses printed as text
    g_parse(ctx, acc, 'c01gt', 'MC_C01T',
            'CONSTANT MaxSize = %d\nINIT Init\nNEXT Next\nINVARIANT EmitVector\nCHECK_DEADLOCK FALSE\n' % pick(ctx, 4, 6), PARSE_KINDS_TREE)
    if not ctx.quick:
        # long random behaviours of the generator machine
        g_parse(ctx, acc, 'c01gs', 'MC_C01',
                'CONSTANT MaxLen = 40\nINIT Init\nNEXT Next\nINVARIANT EmitVector\nCHECK_DEADLOCK FALSE\n', PARSE_KINDS_TREE,
                extra=['-simulate', 'num=3000', '-depth', '41', '-seed', str(ctx.seed)], workers=1)
    # T: long flat sentences (hundreds of words, many negations and groups): acceptance class only, since
    # their trees are deeper than the JSON readers accept
    tr = '%s/c01long.ndjson' % ctx.work
    ctx.t.record(['record-total', '--only', 'flat', '--count', str(pick(ctx, 150, 1500)), '--seed', str(ctx.seed)], tr, timeout=1800)
    nrec = sum(1 for l in open(tr) if l.startswith('{'))
    if nrec:
        cfgt = 'CONSTANT Stride = 16\nCONSTANT CheckSpec = TRUE\nINIT Init\nNEXT Next\nINVARIANT Emit\nINVARIANT EmitCount\nCHECK_DEADLOCK FALSE\n'
        st, js = ctx.t.run_tlc_only('c01long', 'Trace_Total', cfgt, 3000, env={'TRACE': tr})
        if st['errors']:
            raise ctx.t.ToolError('TLC reported: ' + ' | '.join(st['errors'][:3]))
        outl = [json.loads(j) for j in js]
        if not [o for o in outl if o.get('count') == nrec]:
            raise ctx.t.ToolError('Trace_Total did not read the whole log')
        lrecs = [json.loads(l) for l in open(tr) if l.startswith('{')]
        acc.add_stage('c01long', st, nrec, [{'input': ctx.t.text_of(lrecs[0]['i'])[:200] + ' ...', 'parse': lrecs[0]['p']}])
        acc.distinct += len(set(tuple(r['i']) for r in lrecs))
        for o in outl:
            ks = [k for k in o.get('kinds', []) if k in ('rejected-valid', 'accepted-invalid') or k.startswith('parse-')]
            if ks:
                r = lrecs[o['idx'] - 1]
                acc.failures.append({'kinds': ['panic' if k.startswith('parse-') else k for k in ks], 'input': ctx.t.text_of(r['i']), 'i': r['i'], 'stage': 'c01long'})
    # T: LONG chains (100 .. 4097 operands of one operator, and mixtures): the shape of the returned tree (pre-order
    # sequence of node kinds) against the grammar of the specification applied to the token list
    trc = '%s/c01chains.ndjson' % ctx.work
    wd = ctx.t.record(['record-parse', '--mode', 'chains'] + (['--few'] if ctx.quick else []), trc, timeout=1800)
    crecs = [json.loads(l) for l in open(trc) if l.startswith('{')]
    stc, cver = ctx.t.validate_trace('c01chains', 'Trace_Pre', trc, 3000)
    if len(cver) != len(crecs):
        raise ctx.t.ToolError('Trace_Pre judged %d of %d records' % (len(cver), len(crecs)))
    acc.add_stage('c01chains', stc, len(crecs), [{'input': ctx.t.text_of(crecs[0]['i'])[:120] + ' ...', 'operands': crecs[0]['n']}], {'sizes': sorted(set(r['n'] for r in crecs))})
    acc.distinct += len(crecs)
    for v in cver:
        if 'recorder-tokens-disagree-with-text' in v['kinds']:
            raise ctx.t.ToolError('the chain recorder gave a token list that is not the text it gave (record %d)' % v['idx'])
        if v['kinds']:
            r = crecs[v['idx'] - 1]
            acc.failures.append({'kinds': v['kinds'], 'input': ctx.t.text_of(r['i'])[:400] + ' ...', 'i': r['i'], 'operands': r['n'], 'stage': 'c01chains'})
    for f in wd:
        f['stage'] = 'c01chains'
        acc.failures.append(f)
    # the layout with one word per line (a reader with comment or continuation lines changes what the words are)
    g_parse(ctx, acc, 'c01lines', 'MC_C06', cfg(['MaxDev = 0', 'MaskSet = {0}'], ['EmitLines']), PARSE_KINDS_TREE)
    # T: recorded executions on random well-formed expressions and long word sequences
    t_parse(ctx, acc, 'c01t_rec', ['--mode', 'c01', '--count', str(pick(ctx, 4000, 40000)), '--seed', str(ctx.seed)], PARSE_KINDS_TREE)
    return result('model_checking', acc, True,
                  'all word sequences over {( ) ! , -a -and -o -or -true "-name x" -print} up to length %d joined by single blanks (TLC state graph), all trees up to size %d with 14 redundant-parenthesis masks, plus chains of 100..4097 operands (shape of the tree compared through its pre-order sequence), one-word-per-line layouts, seeded random expressions (depth<=8) and word sequences (7..40 words); distinct = distinct inputs with a specified verdict' % (glen, msize),
                  ['oracle: Grammar.tla Decl (last lowest-precedence split), checked equal to the precedence-climbing transcription Climb on every token sequence up to the bound'])


# =========================================================================== C14
def c14(ctx):
    acc = Acc()
    base = 'INIT Init\nNEXT Next\nINVARIANT InvSegmentation\nINVARIANT EmitVector\nCHECK_DEADLOCK FALSE\n'
    clen = pick(ctx, 4, 5)
    g_parse(ctx, acc, 'c14chars', 'MC_C14', 'CONSTANT MaxLen = %d\nCONSTANT Mode = "chars"\n' % clen + base, PARSE_KINDS_TREE)
    plen = pick(ctx, 2, 3)
    g_parse(ctx, acc, 'c14pieces', 'MC_C14', 'CONSTANT MaxLen = %d\nCONSTANT Mode = "pieces"\n' % plen + base + 'INVARIANT EmitSweep\nINVARIANT EmitBraceEdits\nINVARIANT EmitCtl\n', PARSE_KINDS_TREE)
    # random strings up to length 60 (random behaviours of the same machine)
    g_parse(ctx, acc, 'c14sim', 'MC_C14', 'CONSTANT MaxLen = 60\nCONSTANT Mode = "chars"\n' + base, PARSE_KINDS_TREE,
            extra=['-simulate', 'num=%d' % pick(ctx, 150, 1500), '-depth', '61', '-seed', str(ctx.seed)], workers=1, timeout=3000)
    g_parse(ctx, acc, 'c14simp', 'MC_C14', 'CONSTANT MaxLen = 20\nCONSTANT Mode = "pieces"\n' + base, PARSE_KINDS_TREE,
            extra=['-simulate', 'num=%d' % pick(ctx, 150, 1500), '-depth', '21', '-seed', str(ctx.seed)], workers=1, timeout=3000)
    return result('model_checking', acc, True,
                  "all strings up to length %d over the 16-symbol alphabet %%\\{}:pAQnc0178@x and all sequences of up to %d documented directives/escapes/literals, every printable character once after %%, after \\, after %%A %%C %%T, inside %%{}, inside an octal escape and alone, submitted as -printf '<s>' (TLC state graph; InvSegmentation checked in every state), plus random strings to length 60; distinct = vectors with a specified verdict" % (clen, plen),
                  ['oracle: Format.tla FmtParse; 1- and 2-digit octal runs and %{xattr:NAME} with non-alphabetic NAME are unspecified and not judged'])



STD = 'INIT Init\nNEXT Next\nCHECK_DEADLOCK FALSE\n'


def cfg(consts, invs):
    return ''.join('CONSTANT %s\n' % c for c in consts) + STD + ''.join('INVARIANT %s\n' % i for i in invs)


# =========================================================================== C05
def c05(ctx):
    acc = Acc()
    cap = pick(ctx, 8, 60)
    g_parse(ctx, acc, 'c05g', 'MC_C05', cfg(['MemberCap = %d' % cap, 'Contexts = {1, 2, 3, 4, 5}'], ['EmitVector', 'EmitSweep', 'EmitForeign']), PARSE_KINDS_TREE)
    t_parse(ctx, acc, 'c05t', ['--mode', 'vocab', '--count', str(pick(ctx, 6000, 60000)), '--seed', str(ctx.seed)], PARSE_KINDS_TREE)
    return result('model_checking', acc, True,
                  'every keyword of Vocab.tla (55) x up to %d members of its (last) argument language x 60 corruptions (junk appended / prefixed / inserted, missing argument, junk glued to the keyword, truncated keyword, keyword glued to argument) x 5 contexts; every printable character once in 26 places where an argument language enumerates letters or digits (type list, who/operator/permission, octal digits, units, signs, keyword tails); plus seeded random primaries with mutated arguments validated by TLC; distinct = inputs with a specified verdict' % cap,
                  ['oracle: Vocab.tla + ArgLang.tla; quoted numeric arguments, 1-2 digit octal modes and glue around "!" "(" are unspecified and not judged',
                   'multi-clause symbolic modes are left to C08'])


# =========================================================================== C06
def c06(ctx):
    acc = Acc()
    inv = ['InvSpecAgrees', 'EmitVector', 'EmitOptionsFront']
    # (the emitters attached to the initial state run once, in the first stage only)
    g_parse(ctx, acc, 'c06g1', 'MC_C06', cfg(['MaxDev = 1', 'MaskSet = {0, 1, 2, 3}'], inv + ['InvBlank', 'EmitBlank', 'EmitOptionsOnly', 'EmitQuoteSweep', 'EmitLines', 'EmitLongArgs', 'EmitDeepParens']), PARSE_KINDS_TREE)
    if ctx.quick:
        g_parse(ctx, acc, 'c06g2', 'MC_C06', cfg(['MaxDev = 2', 'MaskSet = {0}'], inv), PARSE_KINDS_TREE)
    else:
        g_parse(ctx, acc, 'c06g2', 'MC_C06', cfg(['MaxDev = 2', 'MaskSet = {0, 1, 2, 3}'], inv), PARSE_KINDS_TREE, timeout=3000)
        g_parse(ctx, acc, 'c06gs', 'MC_C06', cfg(['MaxDev = 8', 'MaskSet = {0, 1, 2, 3, 5, 7}'], inv), PARSE_KINDS_TREE,
                extra=['-simulate', 'num=20000', '-depth', '11', '-seed', str(ctx.seed)], workers=1, timeout=3000)
    t_parse(ctx, acc, 'c06t', ['--mode', 'layout', '--count', str(pick(ctx, 4000, 40000)), '--seed', str(ctx.seed)], PARSE_KINDS_TREE)
    return result('model_checking', acc, True,
                  'all trees of size <= 3 over 6 primaries (+3 larger) x redundant-parenthesis masks x every single deviation and every pair of deviations from the canonical spelling (separator per gap, leading/trailing blanks, AND/OR spelling, quoting style); expected = the specification result for the canonical spelling; 32 values with shell-special characters (backslashes alone and doubled, $ ~ # ; & | ` ! * ? { } ...) under 8 string keywords in bare, single- and double-quoted spelling; all blank strings of length <= 3; plus seeded random layouts validated by TLC',
                  ['oracle: Lexer.tla + Grammar.tla; InvSpecAgrees shows the specification itself assigns every variant the canonical result'])


# =========================================================================== C07 (front-end part; emitted constants are added by the back-end stage)
def c07_front(ctx, acc):
    g_parse(ctx, acc, 'c07g', 'MC_C07', cfg(['Seed = %d' % (ctx.seed % 100000), 'NRandom = %d' % pick(ctx, 6, 120)], ['EmitVector', 'EmitLetters', 'EmitBetween']), PARSE_KINDS_TREE, timeout=3000)
    t_parse(ctx, acc, 'c07t', ['--mode', 'numbers', '--count', str(pick(ctx, 3000, 30000)), '--seed', str(ctx.seed)], PARSE_KINDS_TREE)


# =========================================================================== C08 (front-end part)
def c08_front(ctx, acc):
    inv = ['InvChmod', 'InvOracleAgrees', 'EmitVector', 'EmitOdd']
    g_parse(ctx, acc, 'c08oct', 'MC_C08', cfg(['MaxLen = 1', 'Mode = "octal"', 'Slice = 1'], inv), PARSE_KINDS_TREE)
    g_parse(ctx, acc, 'c08cl', 'MC_C08', cfg(['MaxLen = 2', 'Mode = "clauses"', 'Slice = %d' % pick(ctx, 16, 1)], inv), PARSE_KINDS_TREE, timeout=3000)
    if not ctx.quick:
        # (random behaviours: without the emitter attached to the states of depth 1, which every behaviour revisits)
        g_parse(ctx, acc, 'c08sim', 'MC_C08', cfg(['MaxLen = 4', 'Mode = "clauses"', 'Slice = 1'], [i for i in inv if i != 'EmitOdd']), PARSE_KINDS_TREE,
                extra=['-simulate', 'num=400', '-depth', '5', '-seed', str(ctx.seed)], workers=1, timeout=3000)
    t_parse(ctx, acc, 'c08t', ['--mode', 'perm', '--count', str(pick(ctx, 3000, 30000)), '--seed', str(ctx.seed)], PARSE_KINDS_TREE)


# =========================================================================== C13 (front-end part)
def c13_front(ctx, acc):
    g_parse(ctx, acc, 'c13g', 'MC_C13', cfg(['MaxIns = %d' % pick(ctx, 2, 3)], ['InvOptions', 'EmitVector']), PARSE_KINDS_TREE, timeout=3000)
    t_parse(ctx, acc, 'c13t', ['--mode', 'options', '--count', str(pick(ctx, 3000, 30000)), '--seed', str(ctx.seed)], PARSE_KINDS_TREE)


# =========================================================================== C18
def c18(ctx):
    acc = Acc()
    g_parse(ctx, acc, 'c18arg', 'MC_C18', cfg(['Mode = "arg"'], ['EmitVector', 'InvAttributable', 'EmitLong']), PARSE_KINDS_ERRTEXT)
    g_parse(ctx, acc, 'c18unk', 'MC_C18', cfg(['Mode = "unknown"'], ['EmitVector']), PARSE_KINDS_ERRTEXT)
    # the C05 corpus is full of rejected inputs: its error texts are checked too
    g_parse(ctx, acc, 'c18voc', 'MC_C05', cfg(['MemberCap = %d' % pick(ctx, 3, 20), 'Contexts = {1, 2, 4}'], ['EmitVector', 'EmitSweep', 'EmitForeign']), PARSE_KINDS_ERRTEXT)
    t_parse(ctx, acc, 'c18t', ['--mode', 'errors', '--count', str(pick(ctx, 4000, 40000)), '--seed', str(ctx.seed)], PARSE_KINDS_ERRTEXT)
    return result('model_checking', acc, True,
                  'every argument-taking keyword (43) x {argument missing at end of input, missing before ")", 6 words invalid from their first character per argument language} after 0..3 valid primaries and before 0..2 more; 8 unknown words at every position of 4 base expressions; the rejected inputs of the C05 corpus; seeded damaged expressions validated by TLC. Required facts (keyword, back-quoted offending word, non-empty, no quoted text foreign to the input) come from the specification',
                  ['oracle: Lexer.tla error facts (why/kw/w/fs); no wording is prescribed, the text must CONTAIN the keyword and the back-quoted word'])


# =========================================================================== C19
def g_tree(ctx, acc, name, module, cfgtext, timeout=1500, extra=(), workers=16):
    st, summ, fails = ctx.t.run_tlc_replay(name, module, cfgtext, ['replay-tree'], timeout, extra=extra, workers=workers)
    acc.add_stage(name, st, summ.get('vectors', 0), summ.get('samples', []))
    acc.distinct += summ.get('distinct', 0)
    for f in fails:
        f['stage'] = name
        acc.failures.append(f)


def c19(ctx):
    acc = Acc()
    # (5 nodes would be about 10^8 trees: the exhaustive bound is the same in both tiers, the thorough tier grows more random trees)
    msize = 4
    g_tree(ctx, acc, 'c19trees', 'MC_C19', cfg(['MaxSize = %d' % msize, 'Mode = "trees"'], ['InvTwoDefs', 'EmitVector']), timeout=3000)
    g_tree(ctx, acc, 'c19formats', 'MC_C19', cfg(['MaxSize = 1', 'Mode = "formats"'], ['InvTwoDefs', 'EmitVector']))
    g_tree(ctx, acc, 'c19units', 'MC_C19', cfg(['MaxSize = 1', 'Mode = "units"'], ['InvUnits', 'EmitUnits']))
    g_tree(ctx, acc, 'c19deep', 'MC_C19', cfg(['MaxSize = 40', 'Mode = "trees"'], ['InvTwoDefs', 'EmitVector']),
           extra=['-simulate', 'num=%d' % pick(ctx, 100, 1000), '-depth', '13', '-seed', str(ctx.seed)], workers=1, timeout=3000)
    # T: random trees with exotic shapes, hostile strings and strings / numbers harvested from the source
    trace = '%s/c19t.ndjson' % ctx.work
    wd = ctx.t.record(['record-tree', '--count', str(pick(ctx, 4000, 60000)), '--seed', str(ctx.seed)] + (['--few'] if ctx.quick else []), trace)
    recs = [json.loads(l) for l in open(trace) if l.startswith('{')]
    st, verdicts = ctx.t.validate_trace('c19t', 'Trace_Ast', trace, 3000)
    if len(verdicts) != len(recs):
        raise ctx.t.ToolError('Trace_Ast judged %d of %d records' % (len(verdicts), len(recs)))
    acc.add_stage('c19t', st, len(recs), [{'tree': recs[-1].get('t'), 'action': recs[-1]['action'], 'framed': recs[-1]['framed']}], {'big_chains': sum(1 for r in recs if 'big' in r)})
    acc.distinct += len(set(json.dumps(r.get('t', r.get('big')), sort_keys=True) for r in recs))
    for v in verdicts:
        if v['kinds']:
            r = recs[v['idx'] - 1]
            acc.failures.append({'kinds': [k for k in v['kinds'] if k not in ('mode-mismatch', 'compile-panic')] or v['kinds'], 'vector': r, 'stage': 'c19t'})
    for f in wd:
        acc.failures.append(f)
    return result('model_checking', acc, True,
                  'trees grown from 30 leaves built with every public constructor (including Precedence, nested List, Global/Positional, DefaultPrint, empty and newline-in-the-middle format lists) by wrapping in Not/Precedence or combining with a seed tree under And/Or/List on either side, exhaustively up to %d nodes and by random growth to depth 12; spines of 20..110 levels; left-deep chains of 300..5000 members (sent as a description and rebuilt by TLC) with the only action first, in the middle, last or absent; every format element list of length <= 3 over 7 element kinds (including the empty literal) in 5 positions; unit tables and count*unit for 6 counts per unit including floor((2^64-1)/unit)' % msize,
                  ['oracle: Ast.tla HasAction/NeedsFramed, each defined recursively and over the node set (InvTwoDefs); the replay builds the value through the public types (json_to_expr) and checks the projection round trip'])



# =========================================================================== back end: translation validation
SEM_KINDS = {'truth-mismatch', 'outs-mismatch', 'stop-mismatch', 'runtime-error', 'malformed-program', 'no-scan-call',
             'compile-panic', 'render-panic', 'iomap-panic', 'policy-not-a-thunk', 'timeout'}
ROUTE_KINDS = {'mode-mismatch', 'tag-sharing', 'tag-duplicate', 'iomap-targets-wrong', 'frame-garbage', 'tag-unknown',
               'framed-write-elsewhere', 'outs-mismatch', 'compile-panic', 'iomap-panic', 'malformed-program', 'timeout'}
REFUSE_KINDS = {'refused-supported', 'accepted-unsupported', 'error-does-not-name', 'compile-panic', 'timeout'}


def sem_validate(ctx, acc, name, trace, kinds, timeout=3000, consts=''):
    # records without a compile result (input rejected by the parser) carry nothing to validate here
    lines = [l for l in open(trace) if l.startswith('{') and '"c":' in l]
    with open(trace, 'w') as f:
        f.writelines(lines)
    recs = [json.loads(l) for l in lines]
    if not recs:
        raise ctx.t.ToolError('no compiled programs recorded for ' + name)
    st, verdicts = ctx.t.validate_trace(name, 'Trace_Sem', trace, timeout, consts=consts)
    if len(verdicts) != len(recs):
        raise ctx.t.ToolError('trace validation judged %d of %d records (%s)' % (len(verdicts), len(recs), name))
    nfiles = sum(v.get('nfiles', 0) for v in verdicts)
    ncompiled = sum(1 for r in recs if r['c']['st'] == 'ok')
    samples = []
    for r in recs[:2]:
        samples.append({'tree': r['t'], 'compile': r['c']['st'],
                        'program': ctx.t.text_of(r['c']['renders'][0].get('text', []))[:400] if r['c']['st'] == 'ok' else None})
    nstatic = sum(1 for v in verdicts if v.get('nfiles', 0) == 0 and recs[v['idx'] - 1]['c']['st'] == 'ok')
    acc.add_stage(name, st, len(recs), samples, {'programs_compiled': ncompiled, 'file_evaluations': nfiles, 'programs_checked_statically_only': nstatic})
    acc.programs = getattr(acc, 'programs', 0) + ncompiled
    acc.file_evals = getattr(acc, 'file_evals', 0) + nfiles
    acc.distinct += len(set(json.dumps(r['t'], sort_keys=True) for r in recs))
    unmodelled = [v for v in verdicts if 'unmodelled' in v['kinds']]
    nfail0 = len(acc.failures)
    for v in verdicts:
        # a program that leaves the runtime model is not executed, but what the STATIC analyses (scope, resources,
        # user strings, mode, table) found in it still counts (seed C11-i: a name used and never bound made the
        # evaluator give up, and the scope verdict of the same record was thrown away with it)
        vk = [k for k in v['kinds'] if k != 'unmodelled']
        if vk:
            r = recs[v['idx'] - 1]
            f = {'kinds': vk, 'tree': r['t'], 'o': r['o'], 'info': v.get('info'), 'file': v.get('file'), 'stage': name,
                 'compile': r['c']['st'], 'text': ctx.t.text_of(r['c']['renders'][0].get('text', [])) if r['c']['st'] == 'ok' else ctx.t.text_of(r['c'].get('msg', []))}
            acc.failures.extend(keep([f], kinds))
            stage_failed = True
    if unmodelled and len(acc.failures) == nfail0:
        # a program outside the runtime model while nothing else is wrong in the stage: the model has to be extended
        # (when the stage HAS failures, a changed program that also leaves the model is part of the same story)
        v = unmodelled[0]
        raise ctx.t.ToolError('program uses a construct outside the runtime model (record %d of %s): %s' % (v['idx'], name, v.get('info')))
    if ncompiled > 0 and nfiles == 0 and 'Static = TRUE' not in consts and not any(v['kinds'] for v in verdicts):
        # vacuity guard: programs were compiled, nothing was found wrong with them, and not one was executed on a file
        raise ctx.t.ToolError('stage %s: %d programs compiled, none executed (all held to be of unspecified meaning?)' % (name, ncompiled))
    return verdicts


def gt_sem(ctx, acc, name, family, maxsize, kinds, extra_rec=(), consts='', emit=('EmitTree',)):
    """TLC generates trees, the real code compiles them, TLC validates the programs"""
    binp = ctx.t.build('dev')
    import subprocess
    trace = '%s/%s.ndjson' % (ctx.work, name)
    cmd = ctx.t.tlc_cmd(name + '_gen', 'MC_Trees', cfg(['Family = "%s"' % family, 'MaxSize = %d' % maxsize], list(emit)), workers=4)
    tl = subprocess.Popen(cmd, cwd=ctx.t.SPEC, stdout=subprocess.PIPE, stderr=subprocess.STDOUT)
    with open(trace, 'w') as f:
        rp = subprocess.run([binp, 'compile-trees'] + list(extra_rec), stdin=tl.stdout, stdout=f, stderr=subprocess.PIPE, text=True, timeout=1800, cwd=ctx.t.bait_dir())
    tl.wait()
    if rp.returncode != 0 or 'Error' in rp.stderr:
        raise ctx.t.ToolError('tree generation failed: ' + rp.stderr[-400:])
    return sem_validate(ctx, acc, name, trace, kinds, consts=consts)


def t_sem(ctx, acc, name, rec_args, kinds, consts=''):
    trace = '%s/%s.ndjson' % (ctx.work, name)
    wd = ctx.t.record(['record-compile'] + rec_args, trace)
    for f in wd:
        f['stage'] = name
        acc.failures.append(f)
    return sem_validate(ctx, acc, name, trace, kinds, consts=consts)


def tv_result(acc, rule, assumptions, level='translation_validation'):
    cov = acc.coverage(False, rule, {'programs': getattr(acc, 'programs', 0), 'disagreements_checked': getattr(acc, 'file_evals', 0)})
    return {'level': level, 'coverage': cov, 'assumptions': ASSUME_COMMON + RUNTIME_ASSUMPTIONS + assumptions, 'failures': acc.failures}


RUNTIME_ASSUMPTIONS = [
    'runtime model (SchemeEval.tla) of code that is not in the repository: make-printer p m t = lock m; write s; write t; unlock m, returning true; display is one atomic write; call-with-name / call-with-relative-path apply their procedure to the field; round-up-power-of-2 x m rounds x up to a multiple of m; print-relative-path / print-file-fid write one line directly to standard output and return true; lipe-scan-break requests the end of the scan and returns true; format directives ~a ~d ~o ~f ~~ ~% as in Guile',
    "find's rules as transcribed in FindSem.tla; paths follow the project's conventions (-print and %P relative path, %p absolute path, %h directory of the relative path); times print as epoch seconds; -perm /MODE with no bit in MODE is false for every file (the property's 'any given bit set'; GNU find >= 4.5.12 differs)",
]


def design_check(ctx, acc, family, maxsize):
    """model-level: the specification's own Compile is a valid translation (MC_Codegen)"""
    st, js = ctx.t.run_tlc_only('cg_' + family, 'MC_Codegen', cfg(['Family = "%s"' % family, 'MaxSize = %d' % maxsize], ['InvDesignValid']), timeout=6000, workers=8)
    if st['errors']:
        raise ctx.t.ToolError('model-level check of the design failed (the oracle modules disagree with each other): ' + ' | '.join(st['errors'][:2]))
    acc.add_stage('M design: Codegen.tla run by SchemeEval agrees with FindSem, family %s size<=%d' % (family, maxsize), st)


def c02(ctx):
    acc = Acc()
    design_check(ctx, acc, 'mix', pick(ctx, 2, 3))
    gt_sem(ctx, acc, 'c02single', 'single', 1, SEM_KINDS)
    # the same primaries WRITTEN AS TEXT: the real parser reads them, the program is judged against the tree the
    # specification gives for the text (a parser that changes the meaning of an argument is invisible to trees built
    # through the constructors)
    gt_sem(ctx, acc, 'c02texts', 'texts2', pick(ctx, 2, 4), SEM_KINDS | {'refused-supported', 'accepted-unsupported'}, emit=('EmitTree', 'EmitTexts2'))
    gt_sem(ctx, acc, 'c02ops', 'ops', pick(ctx, 3, 4), SEM_KINDS, extra_rec=['--warmup'])
    gt_sem(ctx, acc, 'c02pairs', 'pairs', 2, SEM_KINDS, consts='CONSTANT MaxFiles = 60\nCONSTANT Static = FALSE\n')
    # chains with 15..30 resources (indices of two digits and more) executed on three files
    t_sem(ctx, acc, 'c02mid', ['--count', str(pick(ctx, 30, 300)), '--seed', str(ctx.seed + 5), '--profile', 'chain', '--size', '30'], SEM_KINDS, consts='CONSTANT MaxFiles = 3\nCONSTANT Static = FALSE\n')
    t_sem(ctx, acc, 'c02rand', ['--count', str(pick(ctx, 500, 20000)), '--seed', str(ctx.seed), '--size', '12', '--no-direct'], SEM_KINDS)
    return tv_result(acc, 'every supported primary alone with every generated member of its argument language plus 50 boundary-rich arguments, as trees and WRITTEN AS TEXT (read by the real parser, judged against the tree the specification gives for the text); all trees up to %d nodes over 8 representative primaries and not/and/or/list; seeded random trees up to 12 nodes over the full supported vocabulary; each program executed on the directed files of Backend.tla DirectedFiles (3 base files + every leaf variant around each)' % pick(ctx, 3, 4), [])


def c09(ctx):
    acc = Acc()
    design_check(ctx, acc, 'c09', pick(ctx, 3, 4))
    gt_sem(ctx, acc, 'c09trees', 'c09', pick(ctx, 3, 5), SEM_KINDS)
    gt_sem(ctx, acc, 'c09pairs', 'pairacts', 1, SEM_KINDS, consts='CONSTANT MaxFiles = 60\nCONSTANT Static = FALSE\n')
    t_sem(ctx, acc, 'c09words', ['--profile', 'words', '--no-warmup'], SEM_KINDS, consts='CONSTANT MaxFiles = 3\nCONSTANT Static = FALSE\n')
    t_sem(ctx, acc, 'c09spine', ['--profile', 'spine', '--no-warmup'] + (['--few'] if ctx.quick else []), SEM_KINDS, consts='CONSTANT MaxFiles = 4\nCONSTANT Static = FALSE\n')
    t_sem(ctx, acc, 'c09rand', ['--count', str(pick(ctx, 300, 15000)), '--seed', str(ctx.seed), '--size', '10', '--profile', 'c09'], SEM_KINDS)
    return tv_result(acc, 'all trees up to %d nodes over {true, false, a name test, print, quit, a file print} and not/and/or/list (exhaustive), plus seeded random trees up to 10 nodes over the same leaves, plus DEEP trees (right-nested groups, rule lists, AND chains, negation chains of 40..240 levels with the only action at the bottom / in front / absent); outputs on files that make the name test true and false compared with FindSem.tla SemTop (implicit -print iff no action node anywhere)' % pick(ctx, 3, 5), [])


def c10(ctx):
    acc = Acc()
    gt_sem(ctx, acc, 'c10acts', 'acts', pick(ctx, 2, 3), ROUTE_KINDS)
    t_sem(ctx, acc, 'c10rand', ['--count', str(pick(ctx, 200, 10000)), '--seed', str(ctx.seed), '--size', '9', '--profile', 'actions'], ROUTE_KINDS)
    t_sem(ctx, acc, 'c10affix', ['--profile', 'affix', '--no-warmup'], ROUTE_KINDS, consts='CONSTANT MaxFiles = 4\nCONSTANT Static = FALSE\n')
    t_sem(ctx, acc, 'c10words', ['--profile', 'words', '--no-warmup'], ROUTE_KINDS, consts='CONSTANT MaxFiles = 3\nCONSTANT Static = FALSE\n')
    t_sem(ctx, acc, 'c10longfmt', ['--profile', 'longfmt', '--no-warmup'] + (['--few'] if ctx.quick else []), ROUTE_KINDS, consts='CONSTANT MaxFiles = 3\nCONSTANT Static = FALSE\n')
    t_sem(ctx, acc, 'c10spine', ['--profile', 'spine', '--no-warmup'] + (['--few'] if ctx.quick else []), ROUTE_KINDS, consts='CONSTANT MaxFiles = 4\nCONSTANT Static = FALSE\n')
    t_sem(ctx, acc, 'c10mid', ['--count', str(pick(ctx, 40, 400)), '--seed', str(ctx.seed + 3), '--profile', 'chain', '--size', '30'], ROUTE_KINDS, consts='CONSTANT MaxFiles = 3\nCONSTANT Static = FALSE\n')
    # the mode chosen for BIG expressions (300..1025 members): Trace_Ast rebuilds the chain from its description
    bigtr = '%s/c10big.ndjson' % ctx.work
    wd = ctx.t.record(['record-tree', '--count', '0', '--seed', str(ctx.seed), '--big', '1100'] + (['--few'] if ctx.quick else []), bigtr)
    for f in wd:
        f['stage'] = 'c10big'
        acc.failures.append(f)
    brecs = [json.loads(l) for l in open(bigtr) if l.startswith('{')]
    stb, bver = ctx.t.validate_trace('c10big', 'Trace_Ast', bigtr, 3000)
    if len(bver) != len(brecs) or not brecs:
        raise ctx.t.ToolError('Trace_Ast judged %d of %d big chains' % (len(bver), len(brecs)))
    acc.add_stage('c10big', stb, len(brecs), [{'chain': brecs[0]['big'], 'mode': brecs[0]['mode']}])
    acc.programs = getattr(acc, 'programs', 0) + len(brecs)
    for v in bver:
        ks = [k for k in v['kinds'] if k in ('mode-mismatch', 'compile-panic')]
        if ks:
            acc.failures.append({'kinds': ks, 'chain': brecs[v['idx'] - 1]['big'], 'mode': brecs[v['idx'] - 1]['mode'], 'stage': 'c10big'})
    t_sem(ctx, acc, 'c10chain', ['--count', str(pick(ctx, 4, 40)), '--seed', str(ctx.seed), '--profile', 'chain', '--size', '300'], ROUTE_KINDS, consts='CONSTANT MaxFiles = %d\nCONSTANT Static = FALSE\n' % pick(ctx, 2, 8))
    return tv_result(acc, 'all multisets of up to %d actions from 12 action kinds (stdout/file x newline/NUL/format, file names from a pool of 3, print-file-fid, quit) as AND chain, OR chain and mixed; seeded random operator trees rich in actions; deep trees (40..240 levels) whose only frame-needing action sits at the bottom or in the first rule; every string a change introduced into the source and the special names of a Unix system as argument of every string-carrying test and action; formats of 20..129 elements; chains with up to 300 resources (destinations and matchers); checked: framed iff NeedsFramed, plain => no table, injective table equal to the required targets, stream decodes into frames whose routed records equal FindSem outputs' % pick(ctx, 2, 3), [])


def c12(ctx):
    acc = Acc()

    def has_clear(t):
        if isinstance(t, dict):
            return (t.get('el') == 'esc' and t.get('x') == 'c') or any(has_clear(v) for v in t.values())
        if isinstance(t, list):
            return any(has_clear(v) for v in t)
        return False

    def omitted(stage, verdicts):
        # \c may be refused or implemented (nothing more is printed from that format).  When it is ACCEPTED, a program
        # whose output differs from find's is one in which the construct was omitted or replaced: a C12 failure
        recs = [json.loads(l) for l in open('%s/%s.ndjson' % (ctx.work, stage)) if l.startswith('{')]
        for v in verdicts:
            r = recs[v['idx'] - 1]
            if set(v['kinds']) & {'outs-mismatch', 'runtime-error', 'malformed-program'} and r['c']['st'] == 'ok' and has_clear(r['t']):
                acc.failures.append({'kinds': ['accepted-unsupported'], 'tree': r['t'], 'o': r['o'], 'stage': stage, 'file': v.get('file'),
                                     'info': 'a format with \\c was accepted but the program does not stop printing there (%s)' % ','.join(v['kinds']),
                                     'text': ctx.t.text_of(r['c']['renders'][0].get('text', []))})

    omitted('c12unsup', gt_sem(ctx, acc, 'c12unsup', 'unsup', 1, REFUSE_KINDS, consts='CONSTANT MaxFiles = 3\nCONSTANT Static = FALSE\n'))
    # the constructs as the user writes them: the real parser reads the text, the program (or the refusal) is judged
    # against the tree the SPECIFICATION gives for the text
    omitted('c12texts', gt_sem(ctx, acc, 'c12texts', 'texts', 1, REFUSE_KINDS, consts='CONSTANT MaxFiles = 3\nCONSTANT Static = FALSE\n', emit=('EmitTree', 'EmitTexts')))
    t_sem(ctx, acc, 'c12words', ['--profile', 'words', '--no-warmup'], REFUSE_KINDS, consts='CONSTANT MaxFiles = 3\nCONSTANT Static = FALSE\n')
    gt_sem(ctx, acc, 'c12compl', 'complement', 1, REFUSE_KINDS, consts='CONSTANT MaxFiles = 3\nCONSTANT Static = FALSE\n')
    gt_sem(ctx, acc, 'c12single', 'single', 1, REFUSE_KINDS, consts='CONSTANT MaxFiles = 3\nCONSTANT Static = FALSE\n')
    omitted('c12rand', t_sem(ctx, acc, 'c12rand', ['--count', str(pick(ctx, 1500, 30000)), '--seed', str(ctx.seed), '--size', '9', '--unsupported', '--no-direct'], REFUSE_KINDS, consts='CONSTANT MaxFiles = 3\nCONSTANT Static = FALSE\n'))
    return tv_result(acc, 'every unsupported construct (13 tests, 3 actions, 7 format directives, the positional option, \\c) alone and in 6 positions (under not, dead AND/OR branches, beside actions); every supported primary alone (must compile); every keyword of the vocabulary and 26 format strings (with and without %, with \\c, with each unsupported directive) WRITTEN AS TEXT in 6 positions, read by the real parser and judged against the tree the specification gives for the text; seeded random trees with 0..3 unsupported constructs; expected from the supported/unsupported partition of Vocab.tla/Format.tla; an accepted program is read and must have two top-level forms; a format with \\c, which may be refused or implemented, must when accepted stop printing there', ['the error must contain the variant name or the keyword of one offending construct'])

def c07(ctx):
    acc = Acc()
    c07_front(ctx, acc)
    # emitted constants: every numeric primary at its boundaries is executed on files at value-1, value, value+1
    gt_sem(ctx, acc, 'c07sem', 'numbers', 1, SEM_KINDS | {'threads-mismatch'})
    # sizes whose byte count does not fit 64 bits: refused by the parser, or by compile, or exact -- never wrapped
    over = '%s/c07over_in.ndjson' % ctx.work
    texts = []
    for unit, lim in (('', 1 << 55), ('b', 1 << 55), ('w', 1 << 63), ('k', 1 << 54), ('M', 1 << 44), ('G', 1 << 34), ('T', 1 << 24)):
        for n in (lim - 1, lim, lim + 1, 2 * lim, (1 << 64) - 1):
            for sign in ('', '+', '-'):
                texts.append('-size %s%d%s' % (sign, n, unit))
    with open(over, 'w') as f:
        for t in texts:
            f.write(json.dumps({'i': [ord(c) for c in t]}) + '\n')
    for prof in ('dev', 'release'):
        tr = '%s/c07over_%s.ndjson' % (ctx.work, prof)
        ctx.t.record(['compile-text', '--from', over], tr, profile=prof)
        if any('"c":' in l for l in open(tr)):
            sem_validate(ctx, acc, 'c07over_' + prof, tr, SEM_KINDS)
        else:
            acc.add_stage('c07over_%s: all %d overflowing sizes refused by the parser' % (prof, len(texts)), {'states': 0, 'transitions': 0}, len(texts))
    # numbers that contain the current second, rendered a moment after compiling: a constant must not depend on the clock
    import time as _t
    now = int(_t.time())
    clk = '%s/c07clock_in.ndjson' % ctx.work
    with open(clk, 'w') as f:
        for d in (0, 1, 2, 3):
            for t in ('-uid %d' % (now + d), '-links +%d' % (now + d), '-size -%dc' % (now + d), '-inum %d -o -gid %d' % (now + d, now + d + 1)):
                f.write(json.dumps({'i': [ord(c) for c in t]}) + '\n')
    os.environ['FPVERIF_RENDER_DELAY_MS'] = '450'
    try:
        trc = '%s/c07clock.ndjson' % ctx.work
        ctx.t.record(['compile-text', '--from', clk], trc)
    finally:
        del os.environ['FPVERIF_RENDER_DELAY_MS']
    sem_validate(ctx, acc, 'c07clock', trc, SEM_KINDS)
    t_sem(ctx, acc, 'c07rand', ['--count', str(pick(ctx, 150, 6000)), '--seed', str(ctx.seed), '--size', '3', '--profile', 'numeric'], SEM_KINDS | {'threads-mismatch'})
    r = result('model_checking', acc, True,
               'front end: 28 numeric slots (ids, counts, thread count, sizes with every unit, times with every unit) x {0, 1, 2^31, 2^32, 2^63, 2^64, floor(2^64/unit) for every unit, a 40-digit number, seeded random values} each -1/0/+1 x sign x 0/1/5 leading zeros, expected verdict and value from BigNat; back end: numeric primaries at their field boundaries compiled and executed by the TLA+ runtime model on files whose field is value-1, value, value+1 (per unit), thread count literal compared with the option',
               RUNTIME_ASSUMPTIONS + ['a size whose byte count exceeds 64 bits may be refused at parse time or at compile time'])
    r['coverage']['programs'] = getattr(acc, 'programs', 0)
    r['coverage']['disagreements_checked'] = getattr(acc, 'file_evals', 0)
    return r


def c08(ctx):
    acc = Acc()
    c08_front(ctx, acc)
    gt_sem(ctx, acc, 'c08sem', 'perms', pick(ctx, 1, 3), SEM_KINDS)
    gt_sem(ctx, acc, 'c08pairs', 'permpairs', 2, SEM_KINDS, consts='CONSTANT MaxFiles = 60\nCONSTANT Static = FALSE\n')
    r = result('model_checking', acc, True,
               'all 4096 octal values in 3- and 4-digit spelling, all 315 single clauses, two-clause lists (%s), each under the three prefixes, expected mode and check kind from ArgLang.tla (chmod fold from mode 0; InvChmod/InvOracleAgrees checked in every state); seeded 1..4-clause lists validated by TLC; back end: %s and all single clauses x 3 prefixes compiled and executed on files whose mode is the expected mode, that mode with each of the 12 bits flipped, 0, 07777 and with other type bits; pairs of -perm tests with related modes (equal, subset, superset, overlapping, disjoint) under one operator' % (pick(ctx, '1 in 16 stratified slice', 'all 99,225'), pick(ctx, '25 boundary octal modes', 'all 4096 octal modes')),
               RUNTIME_ASSUMPTIONS)
    r['coverage']['programs'] = getattr(acc, 'programs', 0)
    r['coverage']['disagreements_checked'] = getattr(acc, 'file_evals', 0)
    return r


def c13(ctx):
    acc = Acc()
    c13_front(ctx, acc)
    # the options as a state machine of their own, driven through the public RunOptions::update (every history of
    # up to MaxLen updates over -depth and 8 thread counts, state compared after each step) + the file-type table
    g_tree(ctx, acc, 'c13opts', 'MC_Options', 'SPECIFICATION Spec\nCONSTANT MaxLen = %d\nINVARIANT InvLast\nINVARIANT InvTypes\nINVARIANT EmitVector\nINVARIANT EmitTypes\nPROPERTY DepthSticks\nPROPERTY OwnField\nCHECK_DEADLOCK FALSE\n' % pick(ctx, 4, 5))
    t_sem(ctx, acc, 'c13threads', ['--count', str(pick(ctx, 200, 3000)), '--seed', str(ctx.seed), '--size', '4', '--profile', 'c09', '--threads'], {'threads-mismatch', 'compile-panic', 'malformed-program', 'no-scan-call'},
          consts='CONSTANT MaxFiles = 1\nCONSTANT Static = FALSE\n')
    r = result('model_checking', acc, True,
               '6 base expressions x every insertion of up to %d options from {-depth, -threads N (5 values), -maxdepth N, -mindepth N} at every word boundary (front, middle, inside parentheses, after "!"), expected options/tree from Lexer.tla (InvOptions states the property on the specification result); seeded random inputs with options validated by TLC; back end: the thread argument of the emitted scan call equals the requested count or the runtime default expression' % pick(ctx, 2, 3),
               RUNTIME_ASSUMPTIONS + ['-maxdepth/-mindepth: either honoured or the whole input is an error; both are accepted'])
    r['coverage']['programs'] = getattr(acc, 'programs', 0)
    r['coverage']['disagreements_checked'] = getattr(acc, 'file_evals', 0)
    return r


LEX_KINDS = {'user-string-missing', 'malformed-program', 'skeleton-differs', 'string-count-differs', 'string-not-verbatim', 'marker-not-in-a-string',
             'hostile-string-changes-outcome', 'runtime-error', 'no-scan-call', 'mdt-mismatch', 'compile-panic', 'render-panic',
             'iomap-targets-wrong', 'timeout'}


def c04(ctx):
    acc = Acc()
    import subprocess
    binp = ctx.t.build('dev')
    mlen = pick(ctx, 2, 3)
    trace = '%s/c04.ndjson' % ctx.work
    cmd = ctx.t.tlc_cmd('c04_gen', 'MC_C04', cfg(['MaxLen = %d' % mlen], ['EmitTree', 'EmitSingles', 'EmitAscii', 'EmitOffsets']), workers=8)
    tl = subprocess.Popen(cmd, cwd=ctx.t.SPEC, stdout=subprocess.PIPE, stderr=subprocess.STDOUT)
    with open(trace, 'w') as f:
        rp = subprocess.run([binp, 'compile-trees'], stdin=tl.stdout, stdout=f, stderr=subprocess.PIPE, text=True, timeout=1800, cwd=ctx.t.bait_dir())
    tl.wait()
    if rp.returncode != 0 or 'Error' in rp.stderr:
        raise ctx.t.ToolError('tree generation failed: ' + rp.stderr[-400:])
    verdicts = sem_validate(ctx, acc, 'c04lex', trace, LEX_KINDS, consts='CONSTANT MaxFiles = 4\nCONSTANT Static = FALSE\n', timeout=6000)
    # literal format text must be PRINTED verbatim: for the format slots the executed outputs are compared too
    recs = [json.loads(l) for l in open(trace) if l.startswith('{')]
    for v in verdicts:
        r = recs[v['idx'] - 1]
        # (a literal holding U+001E, the byte that separates payload and tag in a frame, cannot be told from the
        # separator by ANY decoder of the stream: the program prints it verbatim, which is all C04 asks; not judged)
        if r.get('slot', '').startswith('fmt-') and 'outs-mismatch' in v['kinds'] and 30 not in r.get('u', []):
            acc.failures.append({'kinds': ['outs-mismatch'], 'tree': r['t'], 'o': r['o'], 'stage': 'c04lex', 'slot': r['slot']})
    # WORDS: every string literal / word of the code under test (a value the code treats specially -- a placeholder it
    # substitutes later, a marker, a delimiter -- has to be spelt in its source) and the usual suspects, as user strings
    # in 7 slots, each beside the same construct with the benign marker
    def cpl(x):
        return [ord(c) for c in x]

    def slot_tree(slot, w):
        if slot == 'name':
            return {'k': 'name', 's': cpl(w)}
        if slot == 'ipath':
            return {'k': 'and', 'l': {'k': 'ipath', 's': cpl(w)}, 'r': {'k': 'print0'}}
        if slot in ('pool', 'xattr', 'fprint'):
            return {'k': slot, 's': cpl(w)}
        if slot == 'fmt-literal-mid':
            return {'k': 'printf', 'f': [{'el': 'fld', 'f': 'f'}, {'el': 'lit', 's': cpl(w)}, {'el': 'fld', 'f': 's'}, {'el': 'esc', 'x': 'n'}]}
        return {'k': 'print'}

    suspects = ['{mdt}', '{}', '%s', '{path}', '$mdt', '@MDT@', '__MDT__', '{0}', '~a', 'MDT', 'core"', '""', 'x""y', 'a\\', '\\"', '(lipe-scan',
                '"/dev/mdt0"', '/dev/mdt0', '#t', '#f', '()', "'", '`', ',@', '#\\x1e', '%lf3:print:2', '%lf3:match:2', 'mdt', '~%', '~~', '\\n', '\\x41;']
    try:
        dwords = [json.loads(l) for l in open(ctx.t.source_dictionary())]
    except Exception:
        dwords = []
    dwords = [w for w in dwords if 2 <= len(w) <= 24 and not w.isalnum()]
    words = suspects + sorted(set(dwords) - set(suspects))[:pick(ctx, 250, 2000)]
    wfile = '%s/c04words_in.ndjson' % ctx.work
    with open(wfile, 'w') as f:
        for w in words:
            glob = any(c in w for c in '*?[')
            for slot in ('name', 'ipath', 'pool', 'xattr', 'fprint', 'fmt-literal-mid', 'device-path'):
                if slot == 'fmt-literal-mid' and ('%' in w or '\\' in w):
                    continue
                marker = 'QZ*Q' if (glob and slot in ('name', 'ipath')) else 'QZQ'
                mslot = {'fprint': 'fprint-file'}.get(slot, slot)
                f.write(json.dumps({'t': slot_tree(slot, w), 't0': slot_tree(slot, marker), 'o': {'depth': False, 'threads': []}, 'slot': mslot,
                                    'u': cpl(w), 'marker': cpl(marker),
                                    'path': cpl(w if slot == 'device-path' else '/dev/mdt0'),
                                    'path0': cpl('QZQ' if slot == 'device-path' else '/dev/mdt0')}) + '\n')
    wtrace = '%s/c04words.ndjson' % ctx.work
    with open(wtrace, 'w') as f:
        rp = subprocess.run([binp, 'compile-trees'], stdin=open(wfile), stdout=f, stderr=subprocess.PIPE, text=True, timeout=1800, cwd=ctx.t.bait_dir())
    if rp.returncode != 0:
        raise ctx.t.ToolError('compile-trees failed on the word list: ' + rp.stderr[-400:])
    wverdicts = sem_validate(ctx, acc, 'c04words', wtrace, LEX_KINDS, consts='CONSTANT MaxFiles = 3\nCONSTANT Static = FALSE\n', timeout=6000)
    wrecs = [json.loads(l) for l in open(wtrace) if l.startswith('{')]
    for v in wverdicts:
        r = wrecs[v['idx'] - 1]
        if r.get('slot', '').startswith('fmt-') and 'outs-mismatch' in v['kinds'] and 30 not in r.get('u', []):
            acc.failures.append({'kinds': ['outs-mismatch'], 'tree': r['t'], 'o': r['o'], 'stage': 'c04words', 'slot': r['slot']})
    # pairs of related user strings (one the other plus an affix): each must still appear as its own literal
    t_sem(ctx, acc, 'c04affix', ['--profile', 'affix', '--no-warmup'], {'user-string-missing', 'malformed-program', 'compile-panic'}, consts='CONSTANT MaxFiles = 1\nCONSTANT Static = FALSE\n')
    # random longer strings
    t_sem(ctx, acc, 'c04rand', ['--count', str(pick(ctx, 300, 5000)), '--seed', str(ctx.seed), '--size', '4', '--hostile', '--no-direct', '--paths', 'hostile'],
          {'user-string-missing', 'malformed-program', 'runtime-error', 'no-scan-call', 'mdt-mismatch', 'compile-panic', 'render-panic', 'iomap-targets-wrong'},
          consts='CONSTANT MaxFiles = 3\nCONSTANT Static = FALSE\n')
    r = tv_result(acc, 'all strings up to length %d over the 18-symbol alphabet {" \\ ~ %% ( ) ; # LF U+0001 e-acute a SP * [ \' | TAB} in 15 string-carrying slots (name/iname/path/ipath patterns, pool, xattr name, both -xattr-match arguments, output file names, literal format text at the end / in the middle / without newline, %%{xattr:NAME}, device path), injected through the public constructors, and every code point 1..159 plus 23 representatives of the classes beyond once in every slot, the same code points written as octal escapes of a format, and the strings and words spelt in the source of the code under test (placeholders, markers, delimiters) plus 32 usual suspects in 7 slots; each compared with the same construct carrying a benign marker of the same wildcard class; plus seeded random hostile strings up to length 5 in random trees rendered for hostile device paths' % mlen,
                  ["oracle: SchemeRead.tla (Guile's lexical syntax incl. its string escape set): exactly two top-level forms, equal skeletons, string literals equal except where the marker stood and decoding to the user string ('~' doubled in format templates), executed outputs equal find's for the format slots"],
                  level='model_checking')
    return r

SCOPE_KINDS = {'name-bound-twice', 'use-before-binding', 'use-without-binding', 'captured-by-lambda', 'matcher-count', 'printer-count', 'not-a-let*',
               'bad-binding', 'truth-mismatch', 'outs-mismatch', 'runtime-error', 'malformed-program', 'tag-sharing', 'tag-duplicate',
               'iomap-targets-wrong', 'tag-unknown', 'compile-panic', 'no-scan-call', 'timeout'}


def c11(ctx):
    acc = Acc()
    import subprocess
    mlen = pick(ctx, 4, 5)
    st, js = ctx.t.run_tlc_only('c11m', 'MC_Manager', cfg(['MaxLen = %d' % mlen], ['InvDesign']) + 'VIEW View\n', timeout=3000)
    if st['errors']:
        raise ctx.t.ToolError('model-level check failed: ' + ' | '.join(st['errors'][:2]))
    acc.add_stage('M manager machine: all request sequences up to %d over 15 requests, both manager kinds' % mlen, st)
    # G -> T: every request sequence up to length 3 as an AND chain, compiled by the real code
    binp = ctx.t.build('dev')
    trace = '%s/c11.ndjson' % ctx.work
    cmd = ctx.t.tlc_cmd('c11_gen', 'MC_Manager', cfg(['MaxLen = 3'], ['EmitTree']) + 'VIEW View\n', workers=8)
    tl = subprocess.Popen(cmd, cwd=ctx.t.SPEC, stdout=subprocess.PIPE, stderr=subprocess.STDOUT)
    with open(trace, 'w') as f:
        rp = subprocess.run([binp, 'compile-trees'], stdin=tl.stdout, stdout=f, stderr=subprocess.PIPE, text=True, timeout=1800, cwd=ctx.t.bait_dir())
    tl.wait()
    if rp.returncode != 0 or 'Error' in rp.stderr:
        raise ctx.t.ToolError('tree generation failed: ' + rp.stderr[-400:])
    sem_validate(ctx, acc, 'c11chains', trace, SCOPE_KINDS, consts='CONSTANT MaxFiles = 14\nCONSTANT Static = FALSE\n', timeout=6000)
    t_sem(ctx, acc, 'c11long', ['--count', str(pick(ctx, 4, 60)), '--seed', str(ctx.seed), '--profile', 'chain', '--size', '300'], SCOPE_KINDS,
          consts='CONSTANT MaxFiles = %d\nCONSTANT Static = FALSE\n' % pick(ctx, 2, 6))
    t_sem(ctx, acc, 'c11affix', ['--profile', 'affix', '--no-warmup'], SCOPE_KINDS, consts='CONSTANT MaxFiles = 4\nCONSTANT Static = FALSE\n')
    t_sem(ctx, acc, 'c11short', ['--count', str(pick(ctx, 150, 2000)), '--seed', str(ctx.seed + 1), '--profile', 'chain', '--size', '10'], SCOPE_KINDS,
          consts='CONSTANT MaxFiles = 40\nCONSTANT Static = FALSE\n')
    r = tv_result(acc, 'design: all request sequences up to %d over 15 requests (3 patterns equal up to case/wildcard x {cs, ci}, 2 files x 3 terminators, 3 stdout terminators) for both manager kinds with the invariants of Manager.tla; code: every request sequence up to 3 as an AND chain plus seeded chains with up to %d resources in random first-occurrence order with repeats, compiled by the real code; Scope.tla on the real let* (bound once, earlier binding, no capture), number of matcher-like and printer-like bindings (classified by behaviour) equal to Manager.tla for that tree, and execution on distinguishing files' % (mlen, 300), [], level='model_checking')
    return r

def c16(ctx):
    acc = Acc()
    import subprocess, re
    binp = ctx.t.build('dev')
    trace = '%s/c16.ndjson' % ctx.work
    cmd = ctx.t.tlc_cmd('c16_gen', 'MC_Trees', cfg(['Family = "c16"', 'MaxSize = %d' % pick(ctx, 2, 3)], ['EmitTree']), workers=4)
    tl = subprocess.Popen(cmd, cwd=ctx.t.SPEC, stdout=subprocess.PIPE, stderr=subprocess.STDOUT)
    with open(trace, 'w') as f:
        rp = subprocess.run([binp, 'compile-trees'], stdin=tl.stdout, stdout=f, stderr=subprocess.PIPE, text=True, timeout=1800, cwd=ctx.t.bait_dir())
    tl.wait()
    recs = [json.loads(l) for l in open(trace) if l.startswith('{')]
    if rp.returncode != 0 or not recs:
        raise ctx.t.ToolError('program generation failed: ' + rp.stderr[-400:])
    configs = [(2, 2), (3, 1)] if ctx.quick else [(2, 2), (3, 1), (2, 3)]
    # programs with more than 255 generated identifiers (130 matchers in front of two printers)
    big = '%s/c16big.ndjson' % ctx.work
    cmd = ctx.t.tlc_cmd('c16big_gen', 'MC_Trees', cfg(['Family = "c16big"', 'MaxSize = 1'], ['EmitTree']), workers=2)
    tl = subprocess.Popen(cmd, cwd=ctx.t.SPEC, stdout=subprocess.PIPE, stderr=subprocess.STDOUT)
    with open(big, 'w') as f:
        rp = subprocess.run([binp, 'compile-trees'], stdin=tl.stdout, stdout=f, stderr=subprocess.PIPE, text=True, timeout=1800, cwd=ctx.t.bait_dir())
    tl.wait()
    bigrecs = [json.loads(l) for l in open(big) if l.startswith('{')]
    if rp.returncode != 0 or len(bigrecs) != 2:
        raise ctx.t.ToolError('big program generation failed: ' + rp.stderr[-400:])
    # DEEP programs (rule lists and AND chains of 48..240 members whose first action alone decides the output mode)
    spine = '%s/c16spine.ndjson' % ctx.work
    wd = ctx.t.record(['record-compile', '--profile', 'spine16', '--no-warmup'] + (['--few'] if ctx.quick else ['--mid']), spine)
    for f in wd:
        f['stage'] = 'c16spine'
        acc.failures.append(f)
    lf = '%s/c16longfmt.ndjson' % ctx.work
    wd = ctx.t.record(['record-compile', '--profile', 'longfmt', '--no-warmup'] + (['--few'] if ctx.quick else ['--mid']), lf)
    for f in wd:
        f['stage'] = 'c16longfmt'
        acc.failures.append(f)
    with open(spine, 'a') as f:
        f.write(open(lf).read())
    spinerecs = [json.loads(l) for l in open(spine) if l.startswith('{') and '"st":"ok"' in l]
    with open(spine, 'w') as f:
        f.writelines(json.dumps(r) + '\n' for r in spinerecs)
    nsmall = len(recs)
    # the deep / long programs are read one after the other when TLC starts (they are constants of the model):
    # cut into pieces of 8 programs, the pieces run side by side
    runs = [(trace, recs, nt, calls, '') for (nt, calls) in configs if not (nt * calls >= 6 and len(recs) > 100)] + [(big, bigrecs, 2, 1, '_big')]
    if any(nt * calls >= 6 for (nt, calls) in configs) and len(recs) > 100:
        # three calls per thread: on the programs with one or two printers (the state space of three printers x six calls
        # does not finish)
        def nleaves(t):
            return nleaves(t['l']) + nleaves(t['r']) if t.get('k') in ('and', 'or', 'list') else 1
        small = [r for r in recs if nleaves(r['t']) <= 2]
        smalltr = '%s/c16small.ndjson' % ctx.work
        with open(smalltr, 'w') as f:
            f.writelines(json.dumps(r) + '\n' for r in small)
        runs += [(smalltr, small, nt, calls, '_small') for (nt, calls) in configs if nt * calls >= 6]
    for k in range(0, len(spinerecs), 8):
        part = '%s/c16spine_%d.ndjson' % (ctx.work, k // 8)
        with open(part, 'w') as f:
            f.writelines(json.dumps(r) + '\n' for r in spinerecs[k:k + 8])
        runs.append((part, spinerecs[k:k + 8], 2, 1, '_spine%d' % (k // 8)))

    def run_one(job):
        (trace, recs, nt, calls, suffix) = job
        text = ('CONSTANT NThreads = %d\nCONSTANT Calls = %d\nSPECIFICATION Spec\nINVARIANT InvNoBadRelease\nINVARIANT InvWholeRecords\n'
                'INVARIANT InvPrints\nPROPERTY Live\nCHECK_DEADLOCK TRUE\n') % (nt, calls)
        name = 'c16scan_%dx%d%s' % (nt, calls, suffix)
        cmdl = ctx.t.tlc_cmd(name, 'MC_Scan', text, workers=16 if not suffix.startswith('_spine') else 4)
        env = dict(os.environ, TRACE=trace)
        t0 = __import__('time').time()
        try:
            p = subprocess.run(cmdl, cwd=ctx.t.SPEC, env=env, capture_output=True, text=True, timeout=pick(ctx, 1500, 6000))
        except subprocess.TimeoutExpired:
            return {'error': 'TLC timeout in ' + name}
        out = p.stdout
        st = ctx.t.parse_tlc_lines(out.split('\n'))
        st['wall_s'] = __import__('time').time() - t0
        st['cmd'] = ' '.join(cmdl)
        res = {'name': name, 'st': st, 'recs': recs, 'nt': nt, 'calls': calls, 'bad': None, 'error': None}
        if 'is violated' in out or 'Deadlock reached' in out or 'Temporal properties were violated' in out:
            m = re.search(r'Invariant (\w+) is violated', out)
            kind = {'InvWholeRecords': 'torn-or-mixed-records', 'InvNoBadRelease': 'release-of-unheld-mutex', 'InvPrints': 'program-does-not-print'}.get(m.group(1), 'invariant') if m else ('deadlock' if 'Deadlock reached' in out else 'no-progress')
            mp = re.search(r'vProg = (\d+)', out)
            pidx = int(mp.group(1)) if mp else 0
            beh = out[out.find('The behavior up to this point'):][:6000]
            res['bad'] = {'kinds': [kind], 'tree': recs[pidx - 1]['t'] if pidx else None, 'threads': nt, 'calls': calls, 'schedule': beh,
                          'text': ctx.t.text_of(recs[pidx - 1]['c']['renders'][0]['text']) if pidx else '', 'stage': name}
        elif st['errors']:
            res['error'] = 'TLC reported: ' + ' | '.join(st['errors'][:3])
        return res

    results = []
    for job in runs:
        if not job[4].startswith('_spine'):
            results.append(run_one(job))
    from concurrent.futures import ThreadPoolExecutor
    with ThreadPoolExecutor(max_workers=4) as ex:
        results.extend(ex.map(run_one, [j for j in runs if j[4].startswith('_spine')]))
    for res in results:
        if res.get('error') and not res.get('bad'):
            raise ctx.t.ToolError(res['error'])
        acc.add_stage('%s: %d programs, %d threads x %d policy calls, all interleavings' % (res['name'], len(res['recs']), res['nt'], res['calls']), res['st'], len(res['recs']),
                      [{'tree': res['recs'][0]['t'] if len(json.dumps(res['recs'][0]['t'])) < 2000 else '(deep tree)', 'program': ctx.t.text_of(res['recs'][0]['c']['renders'][0]['text'])[:300]}])
        if res['bad']:
            acc.failures.append(res['bad'])
    acc.distinct = nsmall + 2 + len(spinerecs)
    acc.programs = nsmall + 2 + len(spinerecs)
    return tv_result(acc, 'AND chains of 1..%d printing actions (9 kinds: stdout/file x newline/NUL/format) plus the implicit print, plus two programs with 130 matchers in front of two printers (more than 255 generated identifiers), plus rule lists and AND chains of 48..240 members whose first action alone decides the output mode, and formats of 20..129 (thorough: ..300) elements; for each recorded program the atomic steps of a policy call (lock, write, unlock) are extracted from the real text by SchemeEval; TLC explores every interleaving of %s; checked in every state: no release of an unheld mutex; in every terminal state: ports split into whole records (framed: complete frames with the emitted multiset; plain: concatenation of whole critical-section records); no deadlock; <>AllDone under weak fairness' % (pick(ctx, 2, 3), ', '.join('%d threads x %d calls' % c for c in configs)),
                     ['direct runtime prints (print-relative-path, print-file-fid) are modelled as one atomic write; mixing them with printer output in plain mode is outside what can be decided without the runtime source'], level='model_checking')

def api_validate(ctx, acc, name, trace, kinds, timeout=3000):
    recs = [json.loads(l) for l in open(trace) if l.startswith('{')]
    if not recs:
        raise ctx.t.ToolError('empty API log ' + name)
    st, verdicts = ctx.t.validate_trace(name, 'Trace_Api', trace, timeout)
    if len(verdicts) != len(recs):
        raise ctx.t.ToolError('trace validation judged %d of %d events (%s)' % (len(verdicts), len(recs), name))
    nrep = sum(1 for v in verdicts if v['memo'] != v['idx'])
    acc.add_stage(name, st, len(recs), [{'event': recs[i]['ev'], 'input': ctx.t.text_of(recs[i]['i']), 'proc': recs[i]['proc']} for i in range(min(2, len(recs)))],
                  {'events': len(recs), 'events_compared_with_an_earlier_one': nrep})
    acc.distinct += len(set((r['ev'], r['eid']) for r in recs))
    acc.repeats = getattr(acc, 'repeats', 0) + nrep
    for v in verdicts:
        if any(k == 'bad-label' for k in v['kinds']):
            # same label, different argument.  For a parse event the argument is the text the recorder chose: a defect of
            # the recorder.  For a compile event it is the tree the code's own parser returned for that text: two trees
            # for one text means the parser is not a function of its input.
            if recs[v['idx'] - 1].get('ev') == 'parse':
                raise ctx.t.ToolError('recorder labelled two different inputs alike (event %d)' % v['idx'])
            v['kinds'] = ['parse-not-deterministic' if k == 'bad-label' else k for k in v['kinds']]
        if v['kinds']:
            r = recs[v['idx'] - 1]
            f = {'kinds': v['kinds'], 'input': ctx.t.text_of(r['i']), 'i': r['i'], 'event': r['ev'], 'proc': r['proc'], 'seq': r['seq'],
                 'memo_event': v['memo'], 'stage': name}
            acc.failures.extend(keep_prefix([f], kinds))


def keep_prefix(fails, kinds):
    out = []
    for f in fails:
        k = [x for x in f.get('kinds', []) if x in kinds or x.split(':')[0] in kinds]
        if k:
            g = dict(f)
            g['kinds'] = k
            out.append(g)
    return out


def record_procs(ctx, name, args, nproc, profile='dev'):
    """run the recorder in nproc fresh processes with the same seed; concatenate the logs"""
    trace = '%s/%s.ndjson' % (ctx.work, name)
    with open(trace, 'w') as out:
        for p in range(nproc):
            part = '%s/%s.part' % (ctx.work, name)
            ctx.t.record(['record-api'] + args + ['--proc', str(p)], part, profile=profile)
            out.write(open(part).read())
    return trace


DET_KINDS = {'parse-not-deterministic', 'compile-outcome-differs', 'compile-error-differs', 'iomap-differs', 'program-differs',
             'epoch-outside-compile-window'}
PURE_KINDS = {'render-panic', 'malformed-program', 'render-structure-differs', 'render-string-count-differs',
              'render-differs-in-more-than-one-place', 'render-difference-is-not-the-path', 'mdt-mismatch', 'same-path-different-text',
              'iomap-changes-between-queries'}


def c15(ctx):
    acc = Acc()
    nproc = pick(ctx, 4, 16)
    trace = record_procs(ctx, 'c15api', ['--count', str(pick(ctx, 40, 300)), '--seed', str(ctx.seed)], nproc)
    api_validate(ctx, acc, 'c15api', trace, DET_KINDS)
    # the release build is another process image: same seed, must give the same events
    trace2 = record_procs(ctx, 'c15rel', ['--count', str(pick(ctx, 30, 200)), '--seed', str(ctx.seed + 7)], 2, profile='release')
    api_validate(ctx, acc, 'c15rel', trace2, DET_KINDS)
    cov = acc.coverage(False, 'seeded expressions (one third OR-chains of 4..13 matchers/printers so that hash-table iteration order would show), each parsed and compiled 3 times in one process interleaved with the other expressions, in %d fresh processes; every event is compared with the first event for the same argument (the memo of Api.tla); programs compared after replacing integer literals inside the [t0,t1] window of their compile call by NOW, whose number must equal the number of time tests' % nproc,
                       {'evaluations': acc.traces, 'distinct_nontrivial': acc.distinct, 'events_compared_with_an_earlier_one': getattr(acc, 'repeats', 0)})
    return {'level': 'exploration', 'coverage': cov, 'assumptions': ASSUME_COMMON + ['wall-clock seconds t0, t1 are read by the harness immediately before and after compile()'], 'failures': acc.failures}


def c20(ctx):
    acc = Acc()
    # the clock moves on (1.1 s, three times per process) between the first and the second rendering of a compiled
    # expression that holds a time test: what is rendered must not depend on WHEN it is rendered
    os.environ['FPVERIF_RENDER_GAP_MS'] = '1100'
    try:
        trace = record_procs(ctx, 'c20api', ['--count', str(pick(ctx, 25, 100)), '--seed', str(ctx.seed), '--paths', 'hostile', '--no-failprobe'], 1)
    finally:
        del os.environ['FPVERIF_RENDER_GAP_MS']
    api_validate(ctx, acc, 'c20api', trace, PURE_KINDS, timeout=6000)
    cov = acc.coverage(False, 'seeded compiled expressions x 8 renderings for device paths {/, /dev/mdt0, with a blank, with a double quote, with a backslash, trailing backslash, non-ASCII and ~;(, / again} interleaved with destination-table queries, each compiled 3 times, the clock advancing between two renderings of expressions with time tests; user words that look like a placeholder or like the delimiters around the device slot; checked by Api.tla RenderKinds: equal skeletons, string literals equal except one position, that literal is the first argument of the scan call and decodes to the path, same path => identical text, table queries never change',
                       {'evaluations': acc.traces, 'distinct_nontrivial': acc.distinct})
    return {'level': 'model_checking', 'coverage': cov, 'assumptions': ASSUME_COMMON + ["Guile's lexical syntax as transcribed in SchemeRead.tla"], 'failures': acc.failures}


def total_validate(ctx, acc, name, trace, timeout=3000):
    lines = [l for l in open(trace) if l.startswith('{')]
    if len(lines) > 60000:
        # long logs are validated piece by piece
        n = 0
        for k in range(0, len(lines), 60000):
            part = '%s.%d' % (trace, k)
            with open(part, 'w') as f:
                f.writelines(lines[k:k + 60000])
            n += total_validate(ctx, acc, '%s_%d' % (name, k // 60000), part, timeout)
            os.remove(part)
        return n
    nrec = sum(1 for l in open(trace) if l.startswith('{'))
    cfgt = 'CONSTANT Stride = 16\nCONSTANT CheckSpec = FALSE\nINIT Init\nNEXT Next\nINVARIANT Emit\nINVARIANT EmitCount\nCHECK_DEADLOCK FALSE\n'
    st, js = ctx.t.run_tlc_only(name, 'Trace_Total', cfgt, timeout, env={'TRACE': trace})
    if st['errors']:
        raise ctx.t.ToolError('TLC reported: ' + ' | '.join(st['errors'][:3]))
    out = [json.loads(j) for j in js]
    counts = [o['count'] for o in out if 'count' in o]
    if not counts or counts[0] != nrec:
        raise ctx.t.ToolError('Trace_Total read %s of %d records' % (counts, nrec))
    recs = None
    bad = [o for o in out if 'kinds' in o]
    if bad:
        recs = [json.loads(l) for l in open(trace) if l.startswith('{')]
    acc.add_stage(name, st, nrec, [], {'records': nrec})
    for o in bad:
        r = recs[o['idx'] - 1]
        acc.failures.append({'kinds': o['kinds'], 'input': ctx.t.text_of(r['i']), 'i': r['i'], 'observed': {k: r[k] for k in 'pcrm'}, 'stage': name})
    return nrec


def c03(ctx):
    acc = Acc()
    TOTAL = {'panic', 'compile-panic', 'render-panic', 'iomap-panic', 'timeout'}
    # G: exhaustive short argument strings after every argument-taking keyword, whole pipeline
    for prof in ('dev', 'release'):
        st, summ, fails = ctx.t.run_tlc_replay('c03g_' + prof, 'MC_C03', cfg(['MaxLen = %d' % pick(ctx, 2, 3)], ['EmitVector']), ['replay-parse', '--total'], 3000, profile=prof)
        acc.add_stage('c03g_' + prof, st, summ.get('vectors', 0), summ.get('samples', [])[:1])
        acc.distinct += summ.get('distinct', 0) if prof == 'dev' else 0
        for f in keep(fails, TOTAL):
            f['stage'] = 'c03g_' + prof
            acc.failures.append(f)
    # numeric boundary values (C07's machine), whole pipeline, release build (unchecked arithmetic)
    st, summ, fails = ctx.t.run_tlc_replay('c03num', 'MC_C07', cfg(['Seed = %d' % (ctx.seed % 100000), 'NRandom = %d' % pick(ctx, 2, 40)], ['EmitVector']), ['replay-parse', '--total'], 3000, profile='release')
    acc.add_stage('c03num_release', st, summ.get('vectors', 0), summ.get('samples', [])[:1])
    for f in keep(fails, TOTAL):
        f['stage'] = 'c03num'
        acc.failures.append(f)
    # T: grammar-aware generation, prefixes, mutations, nesting to 64, inputs to 4 KiB; both builds
    for prof in ('dev', 'release'):
        trace = '%s/c03t_%s.ndjson' % (ctx.work, prof)
        wd = ctx.t.record(['record-total', '--count', str(pick(ctx, 25000, 400000)), '--seed', str(ctx.seed)], trace, profile=prof, timeout=3000)
        for f in wd:
            f['stage'] = 'c03t_' + prof
            acc.failures.append(f)
        n = total_validate(ctx, acc, 'c03t_' + prof, trace)
        if prof == 'dev':
            acc.distinct += len(set(l for l in open(trace)))
    cov = acc.coverage(False, 'every argument-taking keyword x all argument strings up to length %d over {0 7 8 9 + - , / = %% \\ k u x}; numeric boundary strings of MC_C07; seeded valid expressions, every prefix of valid inputs, single-character mutations (delete/replace/insert/truncate), nesting of ( and ! up to 64, inputs up to 4 KiB; each run through parse -> compile -> scheme -> io_map -> Display under catch_unwind with a 5 s watchdog, in the dev and the release build; Trace_Total.tla accepts only ok/err at every stage' % pick(ctx, 2, 3),
                       {'evaluations': acc.traces, 'distinct_nontrivial': acc.distinct})
    return {'level': 'exploration', 'coverage': cov, 'assumptions': ASSUME_COMMON + ['non-termination is observed by a watchdog (5 s per call); the specification can only state it'], 'failures': acc.failures}


def c17(ctx):
    acc = Acc()
    n = pick(ctx, 15000, 60000)
    traces = {}
    for prof in ('dev', 'release'):
        traces[prof] = '%s/c17_%s.ndjson' % (ctx.work, prof)
        wd = ctx.t.record(['record-total', '--count', str(n), '--seed', str(ctx.seed), '--full'], traces[prof], profile=prof, timeout=3000)
        for f in wd:
            f['stage'] = 'c17_' + prof
            acc.failures.append(f)
    paired = '%s/c17_pairs.ndjson' % ctx.work
    a = [l for l in open(traces['dev']) if l.startswith('{')]
    b = [l for l in open(traces['release']) if l.startswith('{')]
    if len(a) != len(b):
        acc.failures.append({'kinds': ['different-number-of-records'], 'input': '', 'stage': 'c17'})
    with open(paired, 'w') as f:
        for x, y in zip(a, b):
            f.write('{"a":%s,"b":%s}\n' % (x.strip(), y.strip()))
    st, verdicts = ctx.t.validate_trace('c17pair', 'Trace_Pair', paired, 6000)
    if len(verdicts) != min(len(a), len(b)):
        raise ctx.t.ToolError('Trace_Pair judged %d of %d pairs' % (len(verdicts), len(a)))
    acc.add_stage('c17pair', st, len(verdicts), [{'input': ctx.t.text_of(json.loads(a[0])['i'])}], {'pairs': len(verdicts)})
    acc.distinct = len(set(a))
    for v in verdicts:
        if v['kinds']:
            ra = json.loads(a[v['idx'] - 1])
            acc.failures.append({'kinds': v['kinds'], 'input': ctx.t.text_of(ra['i']), 'i': ra['i'], 'stage': 'c17pair'})
    cov = acc.coverage(False, 'the C03 corpus (valid, invalid, boundary, mutated, nested, long inputs; %d inputs) evaluated by a dev-profile and a release-profile build of the same recorder; Trace_Pair.tla requires the two observations of every input to be the same behaviour: parse result, compile outcome and error text, destination table, program up to the embedded epoch; a panic in either build is reported' % n,
                       {'evaluations': acc.traces, 'distinct_nontrivial': acc.distinct})
    return {'level': 'exploration', 'coverage': cov, 'assumptions': ASSUME_COMMON + ['dev profile: debug assertions and overflow checks on; release profile: both off (harness/Cargo.toml)'], 'failures': acc.failures}


def front_only(fn, level, rule, assumptions):
    def run(ctx):
        acc = Acc()
        fn(ctx, acc)
        return result(level, acc, True, rule, assumptions)
    return run


REGISTRY = {'C01': c01, 'C14': c14, 'C05': c05, 'C06': c06, 'C18': c18, 'C19': c19, 'C02': c02, 'C09': c09, 'C10': c10, 'C12': c12, 'C07': c07, 'C08': c08, 'C13': c13, 'C04': c04, 'C11': c11, 'C16': c16, 'C03': c03, 'C15': c15, 'C17': c17, 'C20': c20}



def run(ctx):
    if ctx.prop not in REGISTRY:
        raise ctx.t.ToolError('no check registered for ' + ctx.prop)
    return REGISTRY[ctx.prop](ctx)


def replay(ctx, path):
    """re-run one saved failure through the same specification evaluation"""
    d = json.load(open(path))
    fl = d['failure']
    acc = Acc()
    if 'i' in fl or isinstance(fl.get('input'), str):
        cps = fl.get('i') or [ord(c) for c in fl['input']]
        inp = '%s/replay_in.ndjson' % ctx.work
        # the recorder re-observes the current code; TLC judges
        with open(inp, 'w') as f:
            f.write(json.dumps({'i': cps}) + '\n')
        trace = '%s/replay_trace.ndjson' % ctx.work
        ctx.t.record(['record-parse', '--from', inp], trace)
        st, verdicts = ctx.t.validate_trace('replay', 'Trace_Parse', trace, 300, stride=1)
        recs = [json.loads(l) for l in open(trace)]
        for v in verdicts:
            if v['kinds']:
                r = recs[v['idx'] - 1]
                acc.failures.append({'kinds': v['kinds'], 'input': ctx.t.text_of(r['i']), 'i': r['i'], 'observed': r['obs']})
        acc.add_stage('replay', st, len(recs), [{'input': ctx.t.text_of(cps)}])
        acc.distinct = 2
        return result('model_checking', acc, False, 'replay of one saved case', [])
    if isinstance(fl.get('tree'), dict):
        # a compiled program: the real code compiles the saved tree again, TLC judges it
        inp = '%s/replay_tree.ndjson' % ctx.work
        with open(inp, 'w') as f:
            f.write(json.dumps({'t': fl['tree'], 'o': fl.get('o', {'depth': False, 'threads': []})}) + '\n')
        import subprocess
        binp = ctx.t.build('dev')
        trace = '%s/replay_trace.ndjson' % ctx.work
        with open(trace, 'w') as out:
            subprocess.run([binp, 'compile-trees'], stdin=open(inp), stdout=out, check=True)
        sem_validate(ctx, acc, 'replay', trace, set(fl.get('kinds', [])) | SEM_KINDS | ROUTE_KINDS | REFUSE_KINDS | SCOPE_KINDS | LEX_KINDS)
        return tv_result(acc, 'replay of one saved tree', [])
    if 'schedule' in fl:
        print(fl['schedule'])
        raise ctx.t.ToolError('a schedule counterexample is replayed by re-running the check (bin/check C16); the saved behaviour is printed above')
    raise ctx.t.ToolError('replay of this failure shape is not supported')
