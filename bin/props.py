"""Per-property pipelines.  Each returns
   {'level', 'coverage', 'assumptions', 'failures': [ {kinds, input/..., expected, observed} ]}"""
import json, os, collections

ASSUME_COMMON = [
    'TLC, SANY, the CommunityModules Json/IOUtils modules and the JVM are trusted',
    'the Rust projection code in harness/ (AST <-> JSON, text <-> code points) and its plain-equality comparison are trusted; it contains no oracle logic',
]


class Ctx:
    def __init__(self, prop, tier, seed, tools):
        self.prop, self.tier, self.seed, self.t = prop, tier, seed, tools
        self.quick = tier != 'thorough'
        self.work = tools.WORK


def pick(ctx, q, t):
    return q if ctx.quick else t


PARSE_KINDS_TREE = {'tree-mismatch', 'accepted-invalid', 'rejected-valid', 'panic', 'opts-mismatch', 'timeout'}
PARSE_KINDS_ERRTEXT = {'errtext-empty', 'errtext-keyword', 'errtext-word', 'errtext-foreign-quote'}


def keep(fails, kinds):
    out = []
    for f in fails:
        k = [x for x in f.get('kinds', []) if x in kinds]
        if k:
            g = dict(f)
            g['kinds'] = k
            out.append(g)
    return out


class Acc:
    """accumulates coverage over stages"""
    def __init__(self):
        self.states = 0
        self.transitions = 0
        self.traces = 0
        self.samples = []
        self.failures = []
        self.stages = []
        self.distinct = 0

    def add_stage(self, name, st, n_impl=0, samples=(), extra=None):
        self.states += st.get('states', 0)
        self.transitions += st.get('transitions', 0)
        self.traces += n_impl
        for s in list(samples)[:3]:
            if len(self.samples) < 12:
                self.samples.append({'stage': name, 'case': s})
        d = {'stage': name, 'states': st.get('states', 0), 'transitions': st.get('transitions', 0),
             'validated_against_impl': n_impl, 'wall_s': round(st.get('wall_s', 0), 1), 'cmd': st.get('cmd', '')}
        if extra:
            d.update(extra)
        self.stages.append(d)

    def coverage(self, exhaustive, rule, extra=None):
        c = {'states': self.states, 'transitions': self.transitions,
             'traces_validated_against_impl': self.traces, 'samples': self.samples,
             'evaluations': self.traces, 'distinct_nontrivial': self.distinct, 'rule': rule,
             'exhaustive': exhaustive, 'stages': self.stages}
        if extra:
            c.update(extra)
        return c


def g_parse(ctx, acc, name, module, cfg, kinds, timeout=1500, extra=(), profile='dev', workers=16):
    """spec -> impl: TLC prints vectors, the real parser is run on each"""
    st, summ, fails = ctx.t.run_tlc_replay(name, module, cfg, ['replay-parse'], timeout, extra=extra, profile=profile, workers=workers)
    acc.add_stage(name, st, summ.get('vectors', 0), summ.get('samples', []),
                  {'expected_ok': summ.get('expected_ok'), 'expected_rej': summ.get('expected_rej'), 'unspec': summ.get('unspec')})
    acc.distinct += summ.get('vectors', 0) - summ.get('unspec', 0)
    for f in keep(fails, kinds):
        f['stage'] = name
        acc.failures.append(f)
    return summ


def t_parse(ctx, acc, name, rec_args, kinds, timeout=900, profile='dev'):
    """impl -> spec: record executions of parse(), TLC judges each against the spec"""
    trace = '%s/%s.ndjson' % (ctx.work, name)
    wd = ctx.t.record(['record-parse'] + rec_args, trace, profile=profile)
    recs = [json.loads(l) for l in open(trace) if l.startswith('{')]
    st, verdicts = ctx.t.validate_trace(name, 'Trace_Parse', trace, timeout)
    if len(verdicts) != len(recs):
        raise ctx.t.ToolError('trace validation judged %d of %d records' % (len(verdicts), len(recs)))
    cls = collections.Counter(v['cls'] for v in verdicts)
    distinct = len(set(tuple(r['i']) for r, v in zip(recs, sorted(verdicts, key=lambda v: v['idx'])) if v['cls'] != 'unspec'))
    samples = [{'input': ctx.t.text_of(r['i']), 'observed': r['obs']['st']} for r in recs[:3]]
    acc.add_stage(name, st, len(recs), samples, {'classes': dict(cls)})
    acc.distinct += distinct
    for v in verdicts:
        if v['kinds']:
            r = recs[v['idx'] - 1]
            f = {'kinds': v['kinds'], 'input': ctx.t.text_of(r['i']), 'i': r['i'], 'observed': r['obs'], 'stage': name}
            acc.failures.extend(keep([f], kinds))
    for f in wd:
        f['stage'] = name
        acc.failures.append(f)
    return cls


def result(level, acc, exhaustive, rule, assumptions, extra=None):
    return {'level': level, 'coverage': acc.coverage(exhaustive, rule, extra), 'assumptions': ASSUME_COMMON + assumptions,
            'failures': acc.failures}


# =========================================================================== C01
def c01(ctx):
    acc = Acc()
    mlen = pick(ctx, 5, 7)
    # M: the two grammar definitions agree, structural facts, on abstract token classes
    st, js = ctx.t.run_tlc_only('c01m', 'MC_C01',
        'CONSTANT MaxLen = %d\nINIT Init\nNEXT NextTok\nINVARIANT InvClimbIsDecl\nINVARIANT InvStructure\nINVARIANT InvNoPrefix\nCHECK_DEADLOCK FALSE\n' % mlen,
        timeout=3000)
    if st['errors']:
        # the specification contradicts itself: that is a defect of the machinery, not of the code
        raise ctx.t.ToolError('model-level check failed: ' + ' | '.join(st['errors'][:2]))
    acc.add_stage('M climb=decl over token classes, len<=%d' % mlen, st)
    msize = pick(ctx, 5, 7)
    st, js = ctx.t.run_tlc_only('c01t', 'MC_C01T',
        'CONSTANT MaxSize = %d\nINIT Init\nNEXT Next\nINVARIANT InvRoundTrip\nCHECK_DEADLOCK FALSE\n' % msize, timeout=3000)
    if st['errors']:
        raise ctx.t.ToolError('model-level check failed: ' + ' | '.join(st['errors'][:2]))
    acc.add_stage('M print/parse round trip over trees, size<=%d' % msize, st)
    # G: all word sequences over the 11 spellings
    glen = pick(ctx, 5, 6)
    g_parse(ctx, acc, 'c01g', 'MC_C01',
            'CONSTANT MaxLen = %d\nINIT Init\nNEXT Next\nINVARIANT EmitVector\nCHECK_DEADLOCK FALSE\n' % glen, PARSE_KINDS_TREE)
    # G: trees with redundant parentheses printed as text
    g_parse(ctx, acc, 'c01gt', 'MC_C01T',
            'CONSTANT MaxSize = %d\nINIT Init\nNEXT Next\nINVARIANT EmitVector\nCHECK_DEADLOCK FALSE\n' % pick(ctx, 4, 6), PARSE_KINDS_TREE)
    if not ctx.quick:
        # long random behaviours of the generator machine
        g_parse(ctx, acc, 'c01gs', 'MC_C01',
                'CONSTANT MaxLen = 40\nINIT Init\nNEXT Next\nINVARIANT EmitVector\nCHECK_DEADLOCK FALSE\n', PARSE_KINDS_TREE,
                extra=['-simulate', 'num=3000', '-depth', '41', '-seed', str(ctx.seed)], workers=1)
    # T: recorded executions on random well-formed expressions and long word sequences
    t_parse(ctx, acc, 'c01t_rec', ['--mode', 'c01', '--count', str(pick(ctx, 4000, 40000)), '--seed', str(ctx.seed)], PARSE_KINDS_TREE)
    return result('model_checking', acc, True,
                  'all word sequences over {( ) ! , -a -and -o -or -true "-name x" -print} up to length %d joined by single blanks (TLC state graph), all trees up to size %d with 14 redundant-parenthesis masks, plus seeded random expressions (depth<=8) and word sequences (7..40 words); distinct = distinct inputs with a specified verdict' % (glen, msize),
                  ['oracle: Grammar.tla Decl (last lowest-precedence split), checked equal to the precedence-climbing transcription Climb on every token sequence up to the bound'])


# =========================================================================== C14
def c14(ctx):
    acc = Acc()
    base = 'INIT Init\nNEXT Next\nINVARIANT InvSegmentation\nINVARIANT EmitVector\nCHECK_DEADLOCK FALSE\n'
    clen = pick(ctx, 4, 5)
    g_parse(ctx, acc, 'c14chars', 'MC_C14', 'CONSTANT MaxLen = %d\nCONSTANT Mode = "chars"\n' % clen + base, PARSE_KINDS_TREE)
    plen = pick(ctx, 2, 3)
    g_parse(ctx, acc, 'c14pieces', 'MC_C14', 'CONSTANT MaxLen = %d\nCONSTANT Mode = "pieces"\n' % plen + base, PARSE_KINDS_TREE)
    # random strings up to length 60 (random behaviours of the same machine)
    g_parse(ctx, acc, 'c14sim', 'MC_C14', 'CONSTANT MaxLen = 60\nCONSTANT Mode = "chars"\n' + base, PARSE_KINDS_TREE,
            extra=['-simulate', 'num=%d' % pick(ctx, 150, 3000), '-depth', '61', '-seed', str(ctx.seed)], workers=1)
    g_parse(ctx, acc, 'c14simp', 'MC_C14', 'CONSTANT MaxLen = 20\nCONSTANT Mode = "pieces"\n' + base, PARSE_KINDS_TREE,
            extra=['-simulate', 'num=%d' % pick(ctx, 150, 3000), '-depth', '21', '-seed', str(ctx.seed)], workers=1)
    return result('model_checking', acc, True,
                  "all strings up to length %d over the 16-symbol alphabet %%\\{}:pAQnc0178@x and all sequences of up to %d documented directives/escapes/literals, submitted as -printf '<s>' (TLC state graph; InvSegmentation checked in every state), plus random strings to length 60; distinct = vectors with a specified verdict" % (clen, plen),
                  ['oracle: Format.tla FmtParse; 1- and 2-digit octal runs and %{xattr:NAME} with non-alphabetic NAME are unspecified and not judged'])



STD = 'INIT Init\nNEXT Next\nCHECK_DEADLOCK FALSE\n'


def cfg(consts, invs):
    return ''.join('CONSTANT %s\n' % c for c in consts) + STD + ''.join('INVARIANT %s\n' % i for i in invs)


# =========================================================================== C05
def c05(ctx):
    acc = Acc()
    cap = pick(ctx, 6, 60)
    g_parse(ctx, acc, 'c05g', 'MC_C05', cfg(['MemberCap = %d' % cap, 'Contexts = {1, 2, 3, 4, 5}'], ['EmitVector']), PARSE_KINDS_TREE)
    t_parse(ctx, acc, 'c05t', ['--mode', 'vocab', '--count', str(pick(ctx, 6000, 60000)), '--seed', str(ctx.seed)], PARSE_KINDS_TREE)
    return result('model_checking', acc, True,
                  'every keyword of Vocab.tla (55) x up to %d members of its (last) argument language x 60 corruptions (junk appended / prefixed / inserted, missing argument, junk glued to the keyword, truncated keyword, keyword glued to argument) x 5 contexts; plus seeded random primaries with mutated arguments validated by TLC; distinct = inputs with a specified verdict' % cap,
                  ['oracle: Vocab.tla + ArgLang.tla; quoted numeric arguments, 1-2 digit octal modes and glue around "!" "(" are unspecified and not judged',
                   'multi-clause symbolic modes are left to C08'])


# =========================================================================== C06
def c06(ctx):
    acc = Acc()
    inv = ['InvSpecAgrees', 'InvBlank', 'EmitVector', 'EmitBlank']
    g_parse(ctx, acc, 'c06g1', 'MC_C06', cfg(['MaxDev = 1', 'MaskSet = {0, 1, 2, 3}'], inv), PARSE_KINDS_TREE)
    if ctx.quick:
        g_parse(ctx, acc, 'c06g2', 'MC_C06', cfg(['MaxDev = 2', 'MaskSet = {0}'], inv), PARSE_KINDS_TREE)
    else:
        g_parse(ctx, acc, 'c06g2', 'MC_C06', cfg(['MaxDev = 2', 'MaskSet = {0, 1, 2, 3}'], inv), PARSE_KINDS_TREE, timeout=3000)
        g_parse(ctx, acc, 'c06gs', 'MC_C06', cfg(['MaxDev = 8', 'MaskSet = {0, 1, 2, 3, 5, 7}'], inv), PARSE_KINDS_TREE,
                extra=['-simulate', 'num=20000', '-depth', '11', '-seed', str(ctx.seed)], workers=1, timeout=3000)
    t_parse(ctx, acc, 'c06t', ['--mode', 'layout', '--count', str(pick(ctx, 4000, 40000)), '--seed', str(ctx.seed)], PARSE_KINDS_TREE)
    return result('model_checking', acc, True,
                  'all trees of size <= 3 over 6 primaries (+3 larger) x redundant-parenthesis masks x every single deviation and every pair of deviations from the canonical spelling (separator per gap, leading/trailing blanks, AND/OR spelling, quoting style); expected = the specification result for the canonical spelling; all blank strings of length <= 3; plus seeded random layouts validated by TLC',
                  ['oracle: Lexer.tla + Grammar.tla; InvSpecAgrees shows the specification itself assigns every variant the canonical result'])


# =========================================================================== C07 (front-end part; emitted constants are added by the back-end stage)
def c07_front(ctx, acc):
    g_parse(ctx, acc, 'c07g', 'MC_C07', cfg(['Seed = %d' % (ctx.seed % 100000), 'NRandom = %d' % pick(ctx, 6, 120)], ['EmitVector']), PARSE_KINDS_TREE, timeout=3000)
    t_parse(ctx, acc, 'c07t', ['--mode', 'numbers', '--count', str(pick(ctx, 3000, 30000)), '--seed', str(ctx.seed)], PARSE_KINDS_TREE)


# =========================================================================== C08 (front-end part)
def c08_front(ctx, acc):
    inv = ['InvChmod', 'InvOracleAgrees', 'EmitVector']
    g_parse(ctx, acc, 'c08oct', 'MC_C08', cfg(['MaxLen = 1', 'Mode = "octal"', 'Slice = 1'], inv), PARSE_KINDS_TREE)
    g_parse(ctx, acc, 'c08cl', 'MC_C08', cfg(['MaxLen = 2', 'Mode = "clauses"', 'Slice = %d' % pick(ctx, 16, 1)], inv), PARSE_KINDS_TREE, timeout=3000)
    if not ctx.quick:
        g_parse(ctx, acc, 'c08sim', 'MC_C08', cfg(['MaxLen = 4', 'Mode = "clauses"', 'Slice = 1'], inv), PARSE_KINDS_TREE,
                extra=['-simulate', 'num=7000', '-depth', '5', '-seed', str(ctx.seed)], workers=1, timeout=3000)
    t_parse(ctx, acc, 'c08t', ['--mode', 'perm', '--count', str(pick(ctx, 3000, 30000)), '--seed', str(ctx.seed)], PARSE_KINDS_TREE)


# =========================================================================== C13 (front-end part)
def c13_front(ctx, acc):
    g_parse(ctx, acc, 'c13g', 'MC_C13', cfg(['MaxIns = %d' % pick(ctx, 2, 3)], ['InvOptions', 'EmitVector']), PARSE_KINDS_TREE, timeout=3000)
    t_parse(ctx, acc, 'c13t', ['--mode', 'options', '--count', str(pick(ctx, 3000, 30000)), '--seed', str(ctx.seed)], PARSE_KINDS_TREE)


# =========================================================================== C18
def c18(ctx):
    acc = Acc()
    g_parse(ctx, acc, 'c18arg', 'MC_C18', cfg(['Mode = "arg"'], ['EmitVector', 'InvAttributable']), PARSE_KINDS_ERRTEXT)
    g_parse(ctx, acc, 'c18unk', 'MC_C18', cfg(['Mode = "unknown"'], ['EmitVector']), PARSE_KINDS_ERRTEXT)
    # the C05 corpus is full of rejected inputs: its error texts are checked too
    g_parse(ctx, acc, 'c18voc', 'MC_C05', cfg(['MemberCap = %d' % pick(ctx, 3, 20), 'Contexts = {1, 2, 4}'], ['EmitVector']), PARSE_KINDS_ERRTEXT)
    t_parse(ctx, acc, 'c18t', ['--mode', 'errors', '--count', str(pick(ctx, 4000, 40000)), '--seed', str(ctx.seed)], PARSE_KINDS_ERRTEXT)
    return result('model_checking', acc, True,
                  'every argument-taking keyword (43) x {argument missing at end of input, missing before ")", 6 words invalid from their first character per argument language} after 0..3 valid primaries and before 0..2 more; 8 unknown words at every position of 4 base expressions; the rejected inputs of the C05 corpus; seeded damaged expressions validated by TLC. Required facts (keyword, back-quoted offending word, non-empty, no quoted text foreign to the input) come from the specification',
                  ['oracle: Lexer.tla error facts (why/kw/w/fs); no wording is prescribed, the text must CONTAIN the keyword and the back-quoted word'])


def front_only(fn, level, rule, assumptions):
    def run(ctx):
        acc = Acc()
        fn(ctx, acc)
        return result(level, acc, True, rule, assumptions)
    return run


REGISTRY = {'C01': c01, 'C14': c14, 'C05': c05, 'C06': c06, 'C18': c18}



def run(ctx):
    if ctx.prop not in REGISTRY:
        raise ctx.t.ToolError('no check registered for ' + ctx.prop)
    return REGISTRY[ctx.prop](ctx)


def replay(ctx, path):
    """re-run one saved failure through the same specification evaluation"""
    d = json.load(open(path))
    fl = d['failure']
    acc = Acc()
    if 'i' in fl or isinstance(fl.get('input'), str):
        cps = fl.get('i') or [ord(c) for c in fl['input']]
        inp = '%s/replay_in.ndjson' % ctx.work
        # the recorder re-observes the current code; TLC judges
        with open(inp, 'w') as f:
            f.write(json.dumps({'i': cps}) + '\n')
        trace = '%s/replay_trace.ndjson' % ctx.work
        ctx.t.record(['record-parse', '--from', inp], trace)
        st, verdicts = ctx.t.validate_trace('replay', 'Trace_Parse', trace, 300, stride=1)
        recs = [json.loads(l) for l in open(trace)]
        for v in verdicts:
            if v['kinds']:
                r = recs[v['idx'] - 1]
                acc.failures.append({'kinds': v['kinds'], 'input': ctx.t.text_of(r['i']), 'i': r['i'], 'observed': r['obs']})
        acc.add_stage('replay', st, len(recs), [{'input': ctx.t.text_of(cps)}])
        acc.distinct = 2
        return result('model_checking', acc, False, 'replay of one saved case', [])
    raise ctx.t.ToolError('replay of this failure shape is not supported yet')
