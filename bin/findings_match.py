"""Matchers for known_findings.json.  A finding is identified by the failing input class
(a regular expression on the input text and/or the failure kinds), never by the property
alone, so that a different violation of the same property is still reported."""
import re


def text_of(cps):
    try:
        return ''.join(chr(c) for c in cps)
    except Exception:
        return ''


def failure_text(fl):
    if isinstance(fl.get('input'), str):
        return fl['input']
    if isinstance(fl.get('i'), list):
        return text_of(fl['i'])
    return fl.get('text', '')


def matches(finding, fl):
    m = finding.get('matcher', {})
    kinds = set(fl.get('kinds', []))
    if 'kinds_any' in m and not (kinds & set(m['kinds_any'])):
        return False
    if 'kinds_subset' in m and not kinds <= set(m['kinds_subset']):
        return False
    if 'input_regex' in m and not re.search(m['input_regex'], failure_text(fl), re.S):
        return False
    if 'tag' in m and fl.get('tag') != m['tag']:
        return False
    if 'fn' in m:
        return FUNCS[m['fn']](finding, fl)
    return True


def perm_del_after_bits(finding, fl):
    """D7: a '-' clause applied to a mode in which bits are already set.  The observed mode
    must be exactly what PartialPermission::Del computes today (mode & ~(who & ~perm)),
    so that any OTHER wrong mode for such an input is still a violation."""
    txt = failure_text(fl)
    mm = re.search(r"-perm\s+['\"]?([-/]?)([ugoa]+[-+=][rwx]+(?:,[ugoa]+[-+=][rwx]+)*)['\"]?", txt)
    if not mm:
        return False
    who = {'u': 0o700, 'g': 0o070, 'o': 0o007, 'a': 0o777}
    pm = {'r': 0o444, 'w': 0o222, 'x': 0o111}
    good = bad = 0
    for cl in mm.group(2).split(','):
        m2 = re.match(r'([ugoa]+)([-+=])([rwx]+)$', cl)
        W = 0
        for c in m2.group(1):
            W |= who[c]
        P = 0
        for c in m2.group(3):
            P |= pm[c]
        op = m2.group(2)
        if op == '+':
            good |= W & P
            bad |= W & P
        elif op == '=':
            good = (good & ~W) | (W & P)
            bad = (bad & ~W) | (W & P)
        else:
            good &= ~(W & P)
            bad &= ~(W & ~P)
    if good == bad:
        return False
    obs = fl.get('observed', {})
    t = obs.get('t') if isinstance(obs, dict) else None

    def find_perm(t):
        if isinstance(t, dict):
            if t.get('k') == 'perm':
                return t.get('m')
            for v in t.values():
                r = find_perm(v)
                if r is not None:
                    return r
        return None
    om = fl.get('observed_mode', find_perm(t))
    return om == bad


def direct_print_in_framed(finding, fl):
    """D13: the tree contains a directly-printing action (printfid / defaultprint) and an action
    that forces framed output; only the routing kinds (wrong records / bytes outside a frame)."""
    t = fl.get('tree')
    if not isinstance(t, dict):
        return False
    leaves = []

    def walk(x):
        if isinstance(x, dict):
            if x.get('k') in ('and', 'or', 'list'):
                walk(x['l']); walk(x['r'])
            elif x.get('k') in ('not', 'prec'):
                walk(x['e'])
            else:
                leaves.append(x)
    walk(t)
    direct = any(l.get('k') in ('printfid', 'defaultprint') for l in leaves)

    def framed(l):
        if l.get('k') in ('print0', 'fprint', 'fprint0', 'fprintf', 'fls'):
            return True
        if l.get('k') == 'printf':
            f = l.get('f', [])
            return bool(f) and not (f[-1].get('el') == 'esc' and f[-1].get('x') == 'n')
        return False
    return direct and any(framed(l) for l in leaves)


FUNCS = {'perm_del_after_bits': perm_del_after_bits, 'direct_print_in_framed': direct_print_in_framed}
