"""Dictionary of candidate user strings harvested from the code under test.

A value the code treats specially ("/dev/null", "lustre", a placeholder such as "{mdt}") has to be
spelt somewhere in its source.  The string literals of /repo/src, their blank-separated words and
their {placeholder} fragments are handed to the recorders as candidate names, patterns, file
names and device paths.  What the resulting programs MEAN is still judged by the specification.
"""
import glob
import json
import os
import re

ESC = {'n': '\n', 't': '\t', 'r': '\r', '0': '\0', '\\': '\\', '"': '"', "'": "'"}


def rust_literals(txt):
    """yield the values of "..." string literals (simple escapes undone); comments are skipped"""
    i, n = 0, len(txt)
    while i < n:
        c = txt[i]
        if txt.startswith('//', i):
            j = txt.find('\n', i)
            i = n if j < 0 else j
        elif txt.startswith('/*', i):
            j = txt.find('*/', i)
            i = n if j < 0 else j + 2
        elif c == "'":
            # char literal or lifetime: skip a char literal as a whole
            m = re.match(r"'(\\.|[^'\\])'", txt[i:])
            if m:
                yield m.group(1)[-1] if not m.group(1).startswith('\\') else ESC.get(m.group(1)[1], m.group(1)[1])
                i += m.end()
            else:
                i += 1
        elif c == '"':
            j = i + 1
            out = []
            while j < n and txt[j] != '"':
                if txt[j] == '\\' and j + 1 < n:
                    e = txt[j + 1]
                    if e == '\n':
                        j += 2
                        while j < n and txt[j] in ' \t\n':
                            j += 1
                        continue
                    out.append(ESC.get(e, e))
                    j += 2
                else:
                    out.append(txt[j])
                    j += 1
            yield ''.join(out)
            i = j + 1
        else:
            i += 1


def build(path, src='/repo/src'):
    words = set()
    for f in glob.glob(src + '/**/*.rs', recursive=True):
        try:
            txt = open(f, encoding='utf-8', errors='replace').read()
        except OSError:
            continue
        # the unit tests' literals are inputs of the existing suite, not special values: keep them too,
        # they are harmless candidates
        for val in rust_literals(txt):
            cands = [val] + re.split(r'[\s()"]+', val) + re.findall(r'\{[^{}\s]*\}', val) + re.findall(r'[A-Za-z0-9_./:@$%-]+', val)
            for c in cands:
                if 1 <= len(c) <= 40 and '\0' not in c:
                    words.add(c)
    os.makedirs(os.path.dirname(path), exist_ok=True)
    with open(path, 'w') as out:
        for w in sorted(words):
            out.write(json.dumps(w) + '\n')
    # integer literals of the source (decimal, 0x, 0o, with _ separators and type suffixes): a count or a
    # length the code treats specially is written there; the recorders use them, and them +-1, as counts
    nums = set()
    for f in glob.glob(src + '/**/*.rs', recursive=True):
        try:
            txt = open(f, encoding='utf-8', errors='replace').read()
        except OSError:
            continue
        for m in re.finditer(r'(?<![\w.])(0x[0-9a-fA-F_]+|0o[0-7_]+|0b[01_]+|[0-9][0-9_]*)(?:u8|u16|u32|u64|usize|i32|i64)?(?![\w.])', txt):
            t = m.group(1).replace('_', '')
            try:
                v = int(t, 0) if t[:2] in ('0x', '0o', '0b') else int(t)
            except ValueError:
                continue
            if v < (1 << 64):
                nums.update({v, v + 1, max(v - 1, 0)})
    with open(path + '.nums', 'w') as out:
        for v in sorted(nums):
            out.write('%d\n' % v)
    # what is NEW with respect to the pinned tree (lists committed beside this script): the literals a change
    # introduces are the values it treats specially -- the generators put them first, in every slot and dimension.
    # On the unchanged tree both lists are empty.
    base = os.path.join(os.path.dirname(os.path.abspath(__file__)), '..', 'baseline_dict')
    try:
        bw = set(json.loads(l) for l in open(base + '.txt'))
        bn = set(int(l) for l in open(base + '.nums'))
    except OSError:
        bw, bn = None, None
    with open(path + '.new', 'w') as out:
        for w in sorted(words - bw if bw is not None else []):
            out.write(json.dumps(w) + '\n')
    with open(path + '.nums.new', 'w') as out:
        for v in sorted(nums - bn if bn is not None else []):
            out.write('%d\n' % v)
    return path


if __name__ == '__main__':
    import sys
    if len(sys.argv) > 2 and sys.argv[1] == '--baseline':
        # regenerate the committed baseline lists from a source tree: srcdict.py --baseline /repo/src
        p = build('/tmp/baseline_dict.tmp', sys.argv[2])
        root = os.path.join(os.path.dirname(os.path.abspath(__file__)), '..')
        os.replace(p, root + '/baseline_dict.txt')
        os.replace(p + '.nums', root + '/baseline_dict.nums')
        sys.exit(0)
    p = build(sys.argv[1] if len(sys.argv) > 1 else '/tmp/dict.txt')
    ws = [json.loads(l) for l in open(p)]
    print(len(ws), [w for w in ws if 'mdt' in w or 'lustre' in w or 'dev' in w][:20])
