//! Spec -> implementation: every line TLC prints as a JSON string is one vector
//! {"i": input, "e": expected observation}; the real API is called and the projected
//! result compared with the expectation by plain equality.  Error texts are only required
//! to contain what the specification says they must name (C18).
use crate::proj::*;
use crate::run::*;
use crate::Opts;
use serde_json::{json, Value};
use std::collections::hash_map::DefaultHasher;
use std::collections::HashSet;
use std::hash::{Hash, Hasher};
use std::io::{BufRead, Write};

fn hash_of(s: &str) -> u64 {
    let mut h = DefaultHasher::new();
    s.hash(&mut h);
    h.finish()
}

/// Undo TLC's printing of a string value: "...", with \" \\ \n \t \r \f escapes.
pub fn tlc_unquote(line: &str) -> Option<String> {
    let l = line.trim_end();
    if !(l.starts_with("\"{") && l.ends_with("}\"")) {
        return None;
    }
    let inner = &l[1..l.len() - 1];
    let mut out = String::with_capacity(inner.len());
    let mut it = inner.chars();
    while let Some(c) = it.next() {
        if c == '\\' {
            match it.next()? {
                'n' => out.push('\n'),
                't' => out.push('\t'),
                'r' => out.push('\r'),
                'f' => out.push('\x0c'),
                other => out.push(other),
            }
        } else {
            out.push(c);
        }
    }
    Some(out)
}

fn quoted_fragments(msg: &str) -> Vec<&str> {
    msg.split('`').enumerate().filter(|(i, _)| i % 2 == 1).map(|(_, s)| s).collect()
}

/// Compare one expected front-end result with the observed one.  Returns failure kinds.
pub fn compare_parse(input: &str, exp: &Value, obs: &ParseOut) -> Vec<&'static str> {
    let mut kinds = vec![];
    let st = exp.get("st").and_then(|v| v.as_str()).unwrap_or("");
    // whatever the spelling (also one whose meaning the specification leaves open): a returned tree holds no
    // scan-wide option, and a panic is never an answer
    if let ParseOut::Ok(_, t) = obs {
        let tj = expr_to_json(t).to_string();
        if ["\"g_depth\"", "\"g_threads\"", "\"g_maxdepth\"", "\"g_mindepth\""].iter().any(|k| tj.contains(k)) {
            return vec!["option-in-tree"];
        }
    }
    match (st, obs) {
        (_, ParseOut::Panic(_)) => kinds.push("panic"),
        ("unspec", _) => {}
        ("ok", ParseOut::Ok(o, t)) => {
            if exp.get("t") != Some(&expr_to_json(t)) {
                kinds.push("tree-mismatch");
            }
            if exp.get("o") != Some(&opts_to_json(o)) {
                kinds.push("opts-mismatch");
            }
        }
        ("ok", ParseOut::Err(_)) => {
            if exp.get("mayrej").and_then(|v| v.as_bool()) != Some(true) {
                kinds.push("rejected-valid");
            }
        }
        ("rej", ParseOut::Ok(_, _)) => kinds.push("accepted-invalid"),
        ("rej", ParseOut::Err(msg)) => {
            if msg.is_empty() {
                kinds.push("errtext-empty");
            }
            let err = exp.get("err").cloned().unwrap_or(json!({}));
            let why = err.get("why").and_then(|v| v.as_str()).unwrap_or("");
            let word = err.get("w").and_then(from_cps);
            let attributable = match why {
                "arg" => err.get("fs").and_then(|v| v.as_bool()) == Some(true),
                "unknown" => true,
                _ => false,
            };
            if attributable {
                if why == "arg" {
                    if let Some(kw) = err.get("kw").and_then(from_cps) {
                        if !msg.contains(&kw) {
                            kinds.push("errtext-keyword");
                        }
                    }
                }
                if let Some(w) = &word {
                    if !w.contains('`') && !msg.contains(&format!("`{}`", w)) {
                        kinds.push("errtext-word");
                    }
                }
            }
            if !input.contains('`') {
                for frag in quoted_fragments(msg) {
                    if !input.contains(frag) {
                        kinds.push("errtext-foreign-quote");
                        break;
                    }
                }
            }
        }
        _ => kinds.push("bad-vector"),
    }
    kinds
}

pub fn replay_parse(opts: &Opts) -> i32 {
    let stdin = std::io::stdin();
    let out = std::io::stdout();
    let mut out = out.lock();
    let max_fail = opts.num("max-fail", 200);
    let total = opts.get("total").is_some();
    let (mut n, mut nfail, mut nunspec, mut nok, mut nrej) = (0u64, 0u64, 0u64, 0u64, 0u64);
    let mut samples: Vec<Value> = vec![];
    let mut passthrough = 0u64;
    let mut seen: HashSet<u64> = HashSet::new();
    let mut distinct_specified = 0u64;
    let mut prev_ok: Option<String> = None;
    for line in stdin.lock().lines() {
        let line = match line { Ok(l) => l, Err(_) => continue };
        let js = match tlc_unquote(&line) {
            Some(j) => j,
            None => {
                // TLC's own output: pass through for the orchestrator (statistics, errors)
                if passthrough < 5000 {
                    let _ = writeln!(out, "TLC {}", line);
                    passthrough += 1;
                }
                continue;
            }
        };
        let v: Value = match serde_json::from_str(&js) {
            Ok(v) => v,
            Err(e) => {
                let _ = writeln!(out, "BADJSON {} {}", e, js);
                continue;
            }
        };
        let input = match v.get("i").and_then(from_cps) {
            Some(s) => s,
            None => { let _ = writeln!(out, "BADVEC {}", js); continue; }
        };
        let exp = v.get("e").cloned().unwrap_or(json!({}));
        n += 1;
        if seen.insert(hash_of(&input)) && exp.get("st").and_then(|x| x.as_str()) != Some("unspec") {
            distinct_specified += 1;
        }
        match exp.get("st").and_then(|x| x.as_str()) {
            Some("unspec") => nunspec += 1,
            Some("ok") => nok += 1,
            Some("rej") => nrej += 1,
            _ => {}
        }
        let obs = run_parse(&input);
        let mut kinds = compare_parse(&input, &exp, &obs);
        // HISTORY: the answer for this input must not depend on what the thread parsed just before.  The input is
        // parsed again right after each of a few RELATED inputs (the same text with up to three characters removed at
        // its end, or just before its last character -- the text as it was a few keystrokes earlier; seed C14-i:
        // segmentation resumed from the previous, shorter format), and judged against the SAME expectation.
        if kinds.is_empty() {
            let cs: Vec<char> = input.chars().collect();
            let nn = cs.len();
            if nn >= 2 && nn <= 200 {
                'primes: for j in [nn, nn - 1] {
                    for i in (j.saturating_sub(3)..j).rev() {
                        let prime: String = cs[..i].iter().chain(cs[j..].iter()).collect();
                        let _ = run_parse(&prime);
                        let again = run_parse(&input);
                        let k2 = compare_parse(&input, &exp, &again);
                        if !k2.is_empty() { kinds = k2; kinds.push("after-related-input"); break 'primes; }
                    }
                }
            }
        }
        // ... and right after a DIFFERENT input that fails LATE (the previous accepted vector with junk appended:
        // a further clause / word that is invalid, an unclosed group): what a call leaves behind on its error path is
        // only seen by the next call (seed C08-i: clauses of a rejected -perm list applied to the next one)
        if kinds.is_empty() {
            if let Some(prev) = &prev_ok {
                if prev != &input {
                    for junk in [",~", " -nosuchword", " ("] {
                        let _ = run_parse(&format!("{}{}", prev, junk));
                        let again = run_parse(&input);
                        let k2 = compare_parse(&input, &exp, &again);
                        if !k2.is_empty() { kinds = k2; kinds.push("after-related-input"); break; }
                    }
                }
            }
        }
        if let ParseOut::Ok(_, _) = &obs { if input.len() <= 300 { prev_ok = Some(input.clone()); } }
        if total {
            // C03: the rest of the pipeline must return too (compile, render, io_map)
            if let ParseOut::Ok(o, t) = &obs {
                let c = run_compile(t, o, &["/".to_string()]);
                match c["st"].as_str() {
                    Some("panic") => kinds.push("compile-panic"),
                    Some("ok") => {
                        if c["renders"][0]["st"].as_str() != Some("ok") { kinds.push("render-panic"); }
                        if c["iomaps"][0].get("panic").is_some() { kinds.push("iomap-panic"); }
                    }
                    _ => {}
                }
            }
        }
        if samples.len() < 6 && (n % 97 == 1) {
            samples.push(json!({"input": input, "expected": exp}));
        }
        if !kinds.is_empty() {
            nfail += 1;
            if nfail <= max_fail {
                let _ = writeln!(out, "FAIL {}", json!({"kinds": kinds, "input": input, "i": v.get("i"),
                    "tag": v.get("tag"), "expected": exp, "observed": parse_out_json(&obs)}));
            }
        }
    }
    let _ = writeln!(out, "SUMMARY {}", json!({"vectors": n, "failures": nfail, "unspec": nunspec,
        "expected_ok": nok, "expected_rej": nrej, "distinct": distinct_specified, "samples": samples}));
    0
}

/// C19: vectors {"t": tree, "action": bool, "framed": bool} -> build the value through the
/// public constructors and call the helpers.
pub fn replay_tree(_opts: &Opts) -> i32 {
    let stdin = std::io::stdin();
    let out = std::io::stdout();
    let mut out = out.lock();
    let (mut n, mut nfail) = (0u64, 0u64);
    let mut samples: Vec<Value> = vec![];
    let mut seen: HashSet<u64> = HashSet::new();
    for line in stdin.lock().lines() {
        let line = match line { Ok(l) => l, Err(_) => continue };
        let js = match tlc_unquote(&line) {
            Some(j) => j,
            None => { let _ = writeln!(out, "TLC {}", line); continue; }
        };
        seen.insert(hash_of(&js));
        let v: Value = match serde_json::from_str(&js) {
            Ok(v) => v,
            Err(e) => { let _ = writeln!(out, "BADJSON {} {}", e, js); continue; }
        };
        n += 1;
        let mut kinds: Vec<&str> = vec![];
        let mut observed = json!({});
        if let Some(t) = v.get("t") {
            match json_to_expr(t) {
                None => kinds.push("bad-vector"),
                Some(e) => {
                    // the projection must be the identity on what the spec sent
                    if &expr_to_json(&e) != t { kinds.push("projection-roundtrip"); }
                    let r = guarded(&v, || (e.action(), e.complex_frames()));
                    match r {
                        Err(_) => kinds.push("panic"),
                        Ok((a, f)) => {
                            observed = json!({"action": a, "framed": f});
                            if Some(a) != v.get("action").and_then(|x| x.as_bool()) { kinds.push("has-action"); }
                            if Some(f) != v.get("framed").and_then(|x| x.as_bool()) { kinds.push("needs-framed"); }
                        }
                    }
                }
            }
        } else if let Some(u) = v.get("size_unit").and_then(|x| x.as_str()) {
            // unit tables: {"size_unit": "k", "n": digits, "mult": digits, "bytes": digits|[] }
            let nn = v.get("n").and_then(from_digits).and_then(|x| u64::try_from(x).ok());
            match nn.and_then(|nn| crate::proj::mk_size(u, nn)) {
                None => kinds.push("bad-vector"),
                Some(sz) => {
                    let mult = sz.mult();
                    if Some(mult as u128) != v.get("mult").and_then(from_digits) { kinds.push("size-mult"); }
                    observed = json!({"mult": mult.to_string()});
                    if let Some(b) = v.get("bytes").and_then(from_digits) {
                        match guarded(&v, || sz.byte_size()) {
                            Ok(x) => { observed["bytes"] = json!(x.to_string()); if x as u128 != b { kinds.push("byte-size"); } }
                            Err(_) => kinds.push("panic"),
                        }
                    }
                }
            }
        } else if let Some(u) = v.get("time_unit").and_then(|x| x.as_str()) {
            match crate::proj::mk_time(u, 1) {
                None => kinds.push("bad-vector"),
                Some(t) => {
                    observed = json!({"secs": t.secs().to_string()});
                    if Some(t.secs() as u128) != v.get("secs").and_then(from_digits) { kinds.push("time-secs"); }
                }
            }
        } else if let Some(os) = v.get("opts").and_then(|x| x.as_array()) {
            // the options machine: RunOptions::default() then update(o) per step, state compared after EACH step
            let exp = v.get("states").and_then(|x| x.as_array()).cloned().unwrap_or_default();
            if exp.len() != os.len() { kinds.push("bad-vector"); }
            let r = guarded(&v, || {
                let mut o = lipe_find_parser::RunOptions::default();
                let mut states: Vec<Value> = vec![];
                let mut bad = o.depth || o.threads.is_some();
                for g in os {
                    match json_to_expr(g) {
                        Some(lipe_find_parser::ast::Expression::Global(go)) => { o.update(&go); states.push(opts_to_json(&o)); }
                        _ => { bad = true; }
                    }
                }
                (states, bad)
            });
            match r {
                Err(_) => kinds.push("panic"),
                Ok((states, bad)) => {
                    if bad { kinds.push("bad-vector"); }
                    if states != exp { kinds.push("options-state"); }
                    observed = json!({"states": states});
                }
            }
        } else if let Some(ft) = v.get("ftype").and_then(|x| x.as_str()) {
            match crate::proj::mk_ftype(ft) {
                None => kinds.push("bad-vector"),
                Some(t) => {
                    let b = t.octal().bits() as u64;
                    observed = json!({"bits": b});
                    if Some(b) != v.get("bits").and_then(|x| x.as_u64()) { kinds.push("type-bits"); }
                }
            }
        } else {
            kinds.push("bad-vector");
        }
        if samples.len() < 6 && (n % 53 == 1) { samples.push(v.clone()); }
        if !kinds.is_empty() {
            nfail += 1;
            if nfail <= 200 {
                let _ = writeln!(out, "FAIL {}", json!({"kinds": kinds, "vector": v, "observed": observed}));
            }
        }
    }
    let _ = writeln!(out, "SUMMARY {}", json!({"vectors": n, "failures": nfail, "distinct": seen.len(), "samples": samples}));
    0
}
