//! Projection between the library's public types and the JSON shape shared with the TLA+
//! specification (see spec/Ast.tla).  No oracle logic lives here: these functions only
//! rename.  Text is an array of Unicode code points, numbers are arrays of decimal digits
//! (most significant first), so that nothing depends on TLC's 32-bit integers or on its
//! JSON charset.
#![allow(deprecated)]
use lipe_find_parser::ast::*;
use lipe_find_parser::{Mode, RunOptions, Target};
use serde_json::{json, Map, Value};
use std::rc::Rc;

pub fn cps(s: &str) -> Value {
    Value::Array(s.chars().map(|c| json!(c as u32)).collect())
}

pub fn from_cps(v: &Value) -> Option<String> {
    let arr = v.as_array()?;
    let mut s = String::new();
    for x in arr {
        s.push(char::from_u32(x.as_u64()? as u32)?);
    }
    Some(s)
}

pub fn digits_u64(n: u64) -> Value {
    Value::Array(n.to_string().bytes().map(|b| json!((b - b'0') as u32)).collect())
}

pub fn digits_str(s: &str) -> Value {
    Value::Array(s.bytes().map(|b| json!((b - b'0') as u32)).collect())
}

pub fn from_digits(v: &Value) -> Option<u128> {
    let arr = v.as_array()?;
    if arr.is_empty() {
        return None;
    }
    let mut n: u128 = 0;
    for x in arr {
        n = n.checked_mul(10)?.checked_add(x.as_u64()? as u128)?;
    }
    Some(n)
}

fn cmp_fields<T>(c: &Comparison<T>) -> (&'static str, &T) {
    match c {
        Comparison::GreaterThan(v) => ("gt", v),
        Comparison::LesserThan(v) => ("lt", v),
        Comparison::Equal(v) => ("eq", v),
    }
}

fn mk_cmp<T>(op: &str, v: T) -> Option<Comparison<T>> {
    Some(match op {
        "gt" => Comparison::GreaterThan(v),
        "lt" => Comparison::LesserThan(v),
        "eq" => Comparison::Equal(v),
        _ => return None,
    })
}

fn node(k: &str) -> Map<String, Value> {
    let mut m = Map::new();
    m.insert("k".into(), json!(k));
    m
}

fn node_s(k: &str, s: &str) -> Value {
    let mut m = node(k);
    m.insert("s".into(), cps(s));
    Value::Object(m)
}

fn node_cmp_u64(k: &str, c: &Comparison<u64>) -> Value {
    let (op, n) = cmp_fields(c);
    let mut m = node(k);
    m.insert("cmp".into(), json!(op));
    m.insert("n".into(), digits_u64(*n));
    Value::Object(m)
}

fn node_cmp_u32(k: &str, c: &Comparison<u32>) -> Value {
    let (op, n) = cmp_fields(c);
    let mut m = node(k);
    m.insert("cmp".into(), json!(op));
    m.insert("n".into(), digits_u64(*n as u64));
    Value::Object(m)
}

fn node_time(k: &str, c: &Comparison<TimeSpec>) -> Value {
    let (op, t) = cmp_fields(c);
    let (u, n) = match t {
        TimeSpec::Second(n) => ("s", n),
        TimeSpec::Minute(n) => ("m", n),
        TimeSpec::Hour(n) => ("h", n),
        TimeSpec::Day(n) => ("d", n),
    };
    let mut m = node(k);
    m.insert("cmp".into(), json!(op));
    m.insert("n".into(), digits_u64(*n));
    m.insert("u".into(), json!(u));
    Value::Object(m)
}

fn size_parts(s: &Size) -> (&'static str, u64) {
    match s {
        Size::Byte(n) => ("c", *n),
        Size::Word(n) => ("w", *n),
        Size::Block(n) => ("b", *n),
        Size::KiloByte(n) => ("k", *n),
        Size::MegaByte(n) => ("M", *n),
        Size::GigaByte(n) => ("G", *n),
        Size::TeraByte(n) => ("T", *n),
    }
}

pub fn mk_size(u: &str, n: u64) -> Option<Size> {
    Some(match u {
        "c" => Size::Byte(n),
        "w" => Size::Word(n),
        "b" => Size::Block(n),
        "k" => Size::KiloByte(n),
        "M" => Size::MegaByte(n),
        "G" => Size::GigaByte(n),
        "T" => Size::TeraByte(n),
        _ => return None,
    })
}

pub fn mk_time(u: &str, n: u64) -> Option<TimeSpec> {
    Some(match u {
        "s" => TimeSpec::Second(n),
        "m" => TimeSpec::Minute(n),
        "h" => TimeSpec::Hour(n),
        "d" => TimeSpec::Day(n),
        _ => return None,
    })
}

fn ftype_letter(t: &FileType) -> &'static str {
    match t {
        FileType::Block => "b",
        FileType::Character => "c",
        FileType::Directory => "d",
        FileType::Pipe => "p",
        FileType::File => "f",
        FileType::Link => "l",
        FileType::Socket => "s",
    }
}

pub fn mk_ftype(s: &str) -> Option<FileType> {
    Some(match s {
        "b" => FileType::Block,
        "c" => FileType::Character,
        "d" => FileType::Directory,
        "p" => FileType::Pipe,
        "f" => FileType::File,
        "l" => FileType::Link,
        "s" => FileType::Socket,
        _ => return None,
    })
}

/// (field variant without payload) <-> spec name
const FIELDS: &[(&str, FormatField)] = &[
    ("%", FormatField::Percent),
    ("a", FormatField::Access),
    ("b", FormatField::DiskSizeBlocks),
    ("c", FormatField::Change),
    ("d", FormatField::Depth),
    ("D", FormatField::DeviceNumber),
    ("f", FormatField::Basename),
    ("F", FormatField::FsType),
    ("g", FormatField::Group),
    ("G", FormatField::GroupId),
    ("h", FormatField::Parents),
    ("H", FormatField::StartingPoint),
    ("i", FormatField::InodeDecimal),
    ("k", FormatField::DiskSizeKilos),
    ("l", FormatField::SymbolicTarget),
    ("m", FormatField::PermissionsOctal),
    ("M", FormatField::PermissionsSymbolic),
    ("n", FormatField::Hardlinks),
    ("p", FormatField::Name),
    ("P", FormatField::NameWithoutStartingPoint),
    ("s", FormatField::DiskSizeBytes),
    ("S", FormatField::Sparseness),
    ("t", FormatField::Modify),
    ("u", FormatField::User),
    ("U", FormatField::UserId),
    ("y", FormatField::Type),
    ("Y", FormatField::TypeSymlink),
    ("Z", FormatField::SecurityContext),
    ("fid", FormatField::FileId),
    ("projid", FormatField::ProjectId),
    ("mirror-count", FormatField::MirrorCount),
    ("stripe-count", FormatField::StripeCount),
    ("stripe-size", FormatField::StripeSize),
];

const SPECIALS: &[(&str, FormatSpecial)] = &[
    ("a", FormatSpecial::Alarm),
    ("b", FormatSpecial::Backspace),
    ("c", FormatSpecial::Clear),
    ("f", FormatSpecial::Form),
    ("n", FormatSpecial::Newline),
    ("r", FormatSpecial::CarriageReturn),
    ("t", FormatSpecial::TabHorizontal),
    ("v", FormatSpecial::TabVertical),
    ("0", FormatSpecial::Null),
    ("\\", FormatSpecial::Backslash),
];

pub fn element_to_json(e: &FormatElement) -> Value {
    match e {
        FormatElement::Literal(s) => json!({"el": "lit", "s": cps(s)}),
        FormatElement::Field(f) => match f {
            FormatField::AccessFormatted(c) => json!({"el":"fld","f":"A","c":*c as u32}),
            FormatField::ChangeFormatted(c) => json!({"el":"fld","f":"C","c":*c as u32}),
            FormatField::ModifyFormatted(c) => json!({"el":"fld","f":"T","c":*c as u32}),
            FormatField::XAttr(s) => json!({"el":"fld","f":"xattr","s":cps(s)}),
            other => {
                let name = FIELDS.iter().find(|(_, v)| v == other).map(|(n, _)| *n).unwrap();
                json!({"el":"fld","f":name})
            }
        },
        FormatElement::Special(x) => match x {
            FormatSpecial::Ascii(n) => json!({"el":"esc","x":"ascii","n":*n as u32}),
            other => {
                let name = SPECIALS.iter().find(|(_, v)| v == other).map(|(n, _)| *n).unwrap();
                json!({"el":"esc","x":name})
            }
        },
    }
}

pub fn json_to_element(v: &Value) -> Option<FormatElement> {
    let el = v.get("el")?.as_str()?;
    Some(match el {
        "lit" => FormatElement::Literal(from_cps(v.get("s")?)?),
        "fld" => {
            let f = v.get("f")?.as_str()?;
            let chr = || -> Option<char> { char::from_u32(v.get("c")?.as_u64()? as u32) };
            FormatElement::Field(match f {
                "A" => FormatField::AccessFormatted(chr()?),
                "C" => FormatField::ChangeFormatted(chr()?),
                "T" => FormatField::ModifyFormatted(chr()?),
                "xattr" => FormatField::XAttr(from_cps(v.get("s")?)?),
                name => FIELDS.iter().find(|(n, _)| *n == name)?.1.clone(),
            })
        }
        "esc" => {
            let x = v.get("x")?.as_str()?;
            FormatElement::Special(match x {
                "ascii" => FormatSpecial::Ascii(v.get("n")?.as_u64()? as u16),
                name => SPECIALS.iter().find(|(n, _)| *n == name)?.1.clone(),
            })
        }
        _ => return None,
    })
}

fn elements_to_json(f: &[FormatElement]) -> Value {
    Value::Array(f.iter().map(element_to_json).collect())
}

pub fn expr_to_json(e: &Expression) -> Value {
    match e {
        Expression::Operator(op) => match op.as_ref() {
            Operator::Precedence(e) => json!({"k":"prec","e":expr_to_json(e)}),
            Operator::Not(e) => json!({"k":"not","e":expr_to_json(e)}),
            Operator::And(l, r) => json!({"k":"and","l":expr_to_json(l),"r":expr_to_json(r)}),
            Operator::Or(l, r) => json!({"k":"or","l":expr_to_json(l),"r":expr_to_json(r)}),
            Operator::List(l, r) => json!({"k":"list","l":expr_to_json(l),"r":expr_to_json(r)}),
        },
        Expression::Test(t) => match t {
            Test::AccessTime(c) => node_time("atime", c),
            Test::ChangeTime(c) => node_time("ctime", c),
            Test::ModifyTime(c) => node_time("mtime", c),
            Test::Empty => json!({"k":"empty"}),
            Test::Executable => json!({"k":"executable"}),
            Test::False => json!({"k":"false"}),
            Test::True => json!({"k":"true"}),
            Test::Readable => json!({"k":"readable"}),
            Test::Writable => json!({"k":"writable"}),
            Test::NoGroup => json!({"k":"nogroup"}),
            Test::NoUser => json!({"k":"nouser"}),
            Test::GroupId(c) => node_cmp_u32("gid", c),
            Test::UserId(c) => node_cmp_u32("uid", c),
            Test::InodeNumber(c) => node_cmp_u32("inum", c),
            Test::MirrorCount(c) => node_cmp_u32("mirror-count", c),
            Test::StripeCount(c) => node_cmp_u32("stripe-count", c),
            Test::Links(c) => node_cmp_u64("links", c),
            Test::InsensitiveName(s) => node_s("iname", s),
            Test::InsensitivePath(s) => node_s("ipath", s),
            Test::Name(s) => node_s("name", s),
            Test::Path(s) => node_s("path", s),
            Test::Pool(s) => node_s("pool", s),
            Test::Xattr(s) => node_s("xattr", s),
            Test::AccessNewer(s) => node_s("anewer", s),
            Test::ChangeNewer(s) => node_s("cnewer", s),
            Test::ModifyNewer(s) => node_s("mnewer", s),
            Test::FsType(s) => node_s("fstype", s),
            Test::Group(s) => node_s("group", s),
            Test::User(s) => node_s("user", s),
            Test::InsensitiveLinkName(s) => node_s("ilname", s),
            Test::LinkName(s) => node_s("lname", s),
            Test::InsensitiveRegex(s) => node_s("iregex", s),
            Test::Regex(s) => node_s("regex", s),
            Test::Samefile(s) => node_s("samefile", s),
            Test::XattrMatch(a, b) => json!({"k":"xattr-match","s":cps(a),"s2":cps(b)}),
            Test::Size(c) => {
                let (op, s) = cmp_fields(c);
                let (u, n) = size_parts(s);
                json!({"k":"size","cmp":op,"n":digits_u64(n),"u":u})
            }
            Test::Type(ts) => {
                json!({"k":"type","ts":ts.iter().map(ftype_letter).collect::<Vec<_>>()})
            }
            Test::Perm(p) => {
                let (chk, m) = match p {
                    PermCheck::Equal(p) => ("eq", p.0.bits()),
                    PermCheck::AtLeast(p) => ("all", p.0.bits()),
                    PermCheck::Any(p) => ("any", p.0.bits()),
                };
                json!({"k":"perm","chk":chk,"m":m})
            }
        },
        Expression::Action(a) => match a {
            Action::FileList(s) => node_s("fls", s),
            Action::FilePrint(s) => node_s("fprint", s),
            Action::FilePrintNull(s) => node_s("fprint0", s),
            Action::FilePrintFormatted(s, f) => {
                json!({"k":"fprintf","s":cps(s),"f":elements_to_json(f)})
            }
            Action::List => json!({"k":"ls"}),
            Action::Print => json!({"k":"print"}),
            Action::PrintNull => json!({"k":"print0"}),
            Action::PrintFormatted(f) => json!({"k":"printf","f":elements_to_json(f)}),
            Action::PrintFid => json!({"k":"printfid"}),
            Action::Prune => json!({"k":"prune"}),
            Action::Quit => json!({"k":"quit"}),
            Action::DefaultPrint => json!({"k":"defaultprint"}),
        },
        Expression::Global(g) => match g {
            GlobalOption::Depth => json!({"k":"g_depth"}),
            GlobalOption::MaxDepth(n) => json!({"k":"g_maxdepth","n":digits_u64(*n as u64)}),
            GlobalOption::MinDepth(n) => json!({"k":"g_mindepth","n":digits_u64(*n as u64)}),
            GlobalOption::Threads(n) => json!({"k":"g_threads","n":digits_u64(*n as u64)}),
        },
        Expression::Positional(PositionalOption::XDev) => json!({"k":"xdev"}),
    }
}

fn op(o: Operator) -> Expression {
    Expression::Operator(Rc::new(o))
}

pub fn json_to_expr(v: &Value) -> Option<Expression> {
    let k = v.get("k")?.as_str()?;
    let sub = |f: &str| -> Option<Expression> { json_to_expr(v.get(f)?) };
    let s = |f: &str| -> Option<String> { from_cps(v.get(f)?) };
    let cmp = || -> Option<&str> { v.get("cmp")?.as_str() };
    let n64 = || -> Option<u64> { u64::try_from(from_digits(v.get("n")?)?).ok() };
    let n32 = || -> Option<u32> { u32::try_from(from_digits(v.get("n")?)?).ok() };
    let u = || -> Option<&str> { v.get("u")?.as_str() };
    let fmt = || -> Option<Vec<FormatElement>> {
        v.get("f")?.as_array()?.iter().map(json_to_element).collect()
    };
    use Expression as E;
    Some(match k {
        "prec" => op(Operator::Precedence(sub("e")?)),
        "not" => op(Operator::Not(sub("e")?)),
        "and" => op(Operator::And(sub("l")?, sub("r")?)),
        "or" => op(Operator::Or(sub("l")?, sub("r")?)),
        "list" => op(Operator::List(sub("l")?, sub("r")?)),
        "atime" => E::Test(Test::AccessTime(mk_cmp(cmp()?, mk_time(u()?, n64()?)?)?)),
        "ctime" => E::Test(Test::ChangeTime(mk_cmp(cmp()?, mk_time(u()?, n64()?)?)?)),
        "mtime" => E::Test(Test::ModifyTime(mk_cmp(cmp()?, mk_time(u()?, n64()?)?)?)),
        "empty" => E::Test(Test::Empty),
        "executable" => E::Test(Test::Executable),
        "false" => E::Test(Test::False),
        "true" => E::Test(Test::True),
        "readable" => E::Test(Test::Readable),
        "writable" => E::Test(Test::Writable),
        "nogroup" => E::Test(Test::NoGroup),
        "nouser" => E::Test(Test::NoUser),
        "gid" => E::Test(Test::GroupId(mk_cmp(cmp()?, n32()?)?)),
        "uid" => E::Test(Test::UserId(mk_cmp(cmp()?, n32()?)?)),
        "inum" => E::Test(Test::InodeNumber(mk_cmp(cmp()?, n32()?)?)),
        "mirror-count" => E::Test(Test::MirrorCount(mk_cmp(cmp()?, n32()?)?)),
        "stripe-count" => E::Test(Test::StripeCount(mk_cmp(cmp()?, n32()?)?)),
        "links" => E::Test(Test::Links(mk_cmp(cmp()?, n64()?)?)),
        "iname" => E::Test(Test::InsensitiveName(s("s")?)),
        "ipath" => E::Test(Test::InsensitivePath(s("s")?)),
        "name" => E::Test(Test::Name(s("s")?)),
        "path" => E::Test(Test::Path(s("s")?)),
        "pool" => E::Test(Test::Pool(s("s")?)),
        "xattr" => E::Test(Test::Xattr(s("s")?)),
        "anewer" => E::Test(Test::AccessNewer(s("s")?)),
        "cnewer" => E::Test(Test::ChangeNewer(s("s")?)),
        "mnewer" => E::Test(Test::ModifyNewer(s("s")?)),
        "fstype" => E::Test(Test::FsType(s("s")?)),
        "group" => E::Test(Test::Group(s("s")?)),
        "user" => E::Test(Test::User(s("s")?)),
        "ilname" => E::Test(Test::InsensitiveLinkName(s("s")?)),
        "lname" => E::Test(Test::LinkName(s("s")?)),
        "iregex" => E::Test(Test::InsensitiveRegex(s("s")?)),
        "regex" => E::Test(Test::Regex(s("s")?)),
        "samefile" => E::Test(Test::Samefile(s("s")?)),
        "xattr-match" => E::Test(Test::XattrMatch(s("s")?, s("s2")?)),
        "size" => E::Test(Test::Size(mk_cmp(cmp()?, mk_size(u()?, n64()?)?)?)),
        "type" => E::Test(Test::Type(
            v.get("ts")?
                .as_array()?
                .iter()
                .map(|x| mk_ftype(x.as_str()?))
                .collect::<Option<Vec<_>>>()?,
        )),
        "perm" => {
            let m = Permission(Mode::from_bits(v.get("m")?.as_u64()? as u32)?);
            E::Test(Test::Perm(match v.get("chk")?.as_str()? {
                "eq" => PermCheck::Equal(m),
                "all" => PermCheck::AtLeast(m),
                "any" => PermCheck::Any(m),
                _ => return None,
            }))
        }
        "fls" => E::Action(Action::FileList(s("s")?)),
        "fprint" => E::Action(Action::FilePrint(s("s")?)),
        "fprint0" => E::Action(Action::FilePrintNull(s("s")?)),
        "fprintf" => E::Action(Action::FilePrintFormatted(s("s")?, fmt()?)),
        "ls" => E::Action(Action::List),
        "print" => E::Action(Action::Print),
        "print0" => E::Action(Action::PrintNull),
        "printf" => E::Action(Action::PrintFormatted(fmt()?)),
        "printfid" => E::Action(Action::PrintFid),
        "prune" => E::Action(Action::Prune),
        "quit" => E::Action(Action::Quit),
        "defaultprint" => E::Action(Action::DefaultPrint),
        "g_depth" => E::Global(GlobalOption::Depth),
        "g_maxdepth" => E::Global(GlobalOption::MaxDepth(n32()?)),
        "g_mindepth" => E::Global(GlobalOption::MinDepth(n32()?)),
        "g_threads" => E::Global(GlobalOption::Threads(n32()?)),
        "xdev" => E::Positional(PositionalOption::XDev),
        _ => return None,
    })
}

pub fn opts_to_json(o: &RunOptions) -> Value {
    json!({
        "depth": o.depth,
        "threads": match o.threads { Some(n) => digits_u64(n as u64), None => json!([]) },
    })
}

pub fn json_to_opts(v: &Value) -> Option<RunOptions> {
    let mut o = RunOptions::default();
    o.depth = v.get("depth")?.as_bool()?;
    let t = v.get("threads")?.as_array()?;
    o.threads = if t.is_empty() {
        None
    } else {
        Some(u32::try_from(from_digits(v.get("threads")?)?).ok()?)
    };
    Some(o)
}

fn term_json(t: &Option<char>) -> Value {
    match t {
        None => json!([]),
        Some(c) => json!([*c as u32]),
    }
}

/// io_map as an array sorted by tag: [{tag, dest: "stdout"|"file", file: cps, term: [] | [cp]}]
pub fn iomap_to_json(m: &Option<std::collections::HashMap<u32, Target>>) -> Value {
    match m {
        None => json!({"present": false, "entries": []}),
        Some(m) => {
            let mut keys: Vec<_> = m.keys().copied().collect();
            keys.sort();
            let entries: Vec<Value> = keys
                .iter()
                .map(|k| match &m[k] {
                    Target::Stdout(t) => {
                        json!({"tag": k, "dest": "stdout", "file": [], "term": term_json(t)})
                    }
                    Target::File(f, t) => {
                        json!({"tag": k, "dest": "file", "file": cps(f), "term": term_json(t)})
                    }
                })
                .collect();
            json!({"present": true, "entries": entries})
        }
    }
}
