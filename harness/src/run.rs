//! Running the library's public entry points with panics turned into data and a watchdog
//! for non-termination.  The linearization point of every operation of this sequential
//! library is the return of the public call; what is logged is the full projected result.
use crate::proj::*;
use lipe_find_parser::ast::Expression;
use lipe_find_parser::{compile, parse, RunOptions};
use serde_json::{json, Value};
use std::panic::{catch_unwind, AssertUnwindSafe};
use std::sync::atomic::{AtomicU64, Ordering};
use std::sync::Mutex;
use std::time::{SystemTime, UNIX_EPOCH};

static CASE_START_MS: AtomicU64 = AtomicU64::new(0);
static CURRENT_CASE: Mutex<String> = Mutex::new(String::new());
pub const WATCHDOG_MS: u64 = 5000;

fn now_ms() -> u64 {
    SystemTime::now().duration_since(UNIX_EPOCH).unwrap().as_millis() as u64
}

pub fn now_s() -> u64 {
    SystemTime::now().duration_since(UNIX_EPOCH).unwrap().as_secs()
}

/// Install a silent panic hook and start the watchdog thread.  If one case runs longer than
/// WATCHDOG_MS the process prints `TIMEOUT <case>` and exits with status 3; the orchestrator
/// turns that into a C03 violation for that input.
pub fn init() {
    std::panic::set_hook(Box::new(|_| {}));
    std::thread::spawn(|| loop {
        std::thread::sleep(std::time::Duration::from_millis(200));
        let st = CASE_START_MS.load(Ordering::SeqCst);
        if st != 0 && now_ms().saturating_sub(st) > WATCHDOG_MS {
            let case = CURRENT_CASE.lock().map(|c| c.clone()).unwrap_or_default();
            // written straight to file descriptor 1: the main thread may be holding the lock of `stdout`
            // (the recorders keep it for the whole run) and println! would wait for it for ever
            {
                use std::io::Write;
                use std::os::unix::io::FromRawFd;
                let mut raw = unsafe { std::fs::File::from_raw_fd(1) };
                let _ = raw.write_all(format!("\nTIMEOUT {}\n", case).as_bytes());
                let _ = raw.flush();
                std::mem::forget(raw);
            }
            std::process::exit(3);
        }
    });
}

pub fn guarded<T>(case: &Value, f: impl FnOnce() -> T) -> Result<T, String> {
    if let Ok(mut c) = CURRENT_CASE.lock() {
        *c = case.to_string();
    }
    CASE_START_MS.store(now_ms(), Ordering::SeqCst);
    let r = catch_unwind(AssertUnwindSafe(f));
    CASE_START_MS.store(0, Ordering::SeqCst);
    r.map_err(|p| {
        if let Some(s) = p.downcast_ref::<&str>() {
            s.to_string()
        } else if let Some(s) = p.downcast_ref::<String>() {
            s.clone()
        } else {
            "panic".to_string()
        }
    })
}

pub enum ParseOut {
    Ok(RunOptions, Expression),
    Err(String),
    Panic(String),
}

pub fn run_parse(input: &str) -> ParseOut {
    let case = json!({"op":"parse","i":cps(input)});
    match guarded(&case, || {
        // bin/selftest: a call that never returns, to show that the watchdog reports it
        if input == "-selftest-hang" && std::env::var("FPVERIF_SELFTEST_HANG").is_ok() { loop { std::thread::sleep(std::time::Duration::from_millis(50)); } }
        parse(input)
    }.map_err(|e| {
        // rendering the error as text must succeed too (C03)
        e.to_string()
    })) {
        Ok(Ok((o, e))) => ParseOut::Ok(o, e),
        Ok(Err(msg)) => ParseOut::Err(msg),
        Err(p) => ParseOut::Panic(p),
    }
}

pub fn parse_out_json(o: &ParseOut) -> Value {
    match o {
        ParseOut::Ok(o, e) => json!({"st":"ok","o":opts_to_json(o),"t":expr_to_json(e)}),
        ParseOut::Err(m) => json!({"st":"err","msg":cps(m)}),
        ParseOut::Panic(m) => json!({"st":"panic","msg":cps(m)}),
    }
}

/// compile + render + io_map, each step guarded.  t0/t1: wall-clock seconds around compile.
pub fn run_compile(e: &Expression, o: &RunOptions, paths: &[String]) -> Value {
    let case = json!({"op":"compile","t":expr_to_json(e),"o":opts_to_json(o)});
    let t0 = now_s();
    let r = guarded(&case, || compile(e, o).map_err(|e| e.to_string()));
    let t1 = now_s();
    match r {
        Err(p) => json!({"st":"panic","msg":cps(&p),"t0":digits_str(&t0.to_string()),"t1":digits_str(&t1.to_string())}),
        Ok(Err(m)) => json!({"st":"err","msg":cps(&m),"t0":digits_str(&t0.to_string()),"t1":digits_str(&t1.to_string())}),
        Ok(Ok(c)) => {
            if let Ok(ms) = std::env::var("FPVERIF_RENDER_DELAY_MS") { if let Ok(ms) = ms.parse::<u64>() { std::thread::sleep(std::time::Duration::from_millis(ms)); } }
            let mut renders = vec![];
            let mut maps = vec![];
            for (pi, p) in paths.iter().enumerate() {
                // (C20) let the clock move on between two renderings of ONE compiled expression that holds a time
                // test -- a few times per process: what is rendered must not depend on when it is rendered
                if pi == 1 {
                    if let Some(ms) = std::env::var("FPVERIF_RENDER_GAP_MS").ok().and_then(|v| v.parse::<u64>().ok()) {
                        static GAPS: AtomicU64 = AtomicU64::new(0);
                        let tj = case["t"].to_string();
                        let timed = ["\"amin\"", "\"atime\"", "\"cmin\"", "\"ctime\"", "\"mmin\"", "\"mtime\""].iter().any(|k| tj.contains(k));
                        if timed && GAPS.fetch_add(1, Ordering::SeqCst) < 3 { std::thread::sleep(std::time::Duration::from_millis(ms)); }
                    }
                }
                let r = guarded(&case, || c.scheme(p));
                match r {
                    Ok(text) => renders.push(json!({"st":"ok","path":cps(p),"text":cps(&text)})),
                    Err(m) => renders.push(json!({"st":"panic","path":cps(p),"msg":cps(&m)})),
                }
                let m = guarded(&case, || c.io_map());
                match m {
                    Ok(m) => maps.push(iomap_to_json(&m)),
                    Err(m) => maps.push(json!({"panic":cps(&m)})),
                }
            }
            json!({"st":"ok","renders":renders,"iomaps":maps,
                   "t0":digits_str(&t0.to_string()),"t1":digits_str(&t1.to_string())})
        }
    }
}

/// Small deterministic PRNG (splitmix64) so that everything is reproducible from VERIF_SEED.
pub struct Rng(pub u64);
impl Rng {
    pub fn next(&mut self) -> u64 {
        self.0 = self.0.wrapping_add(0x9E3779B97F4A7C15);
        let mut z = self.0;
        z = (z ^ (z >> 30)).wrapping_mul(0xBF58476D1CE4E5B9);
        z = (z ^ (z >> 27)).wrapping_mul(0x94D049BB133111EB);
        z ^ (z >> 31)
    }
    pub fn below(&mut self, n: usize) -> usize {
        if n == 0 { 0 } else { (self.next() % n as u64) as usize }
    }
    pub fn chance(&mut self, num: u64, den: u64) -> bool {
        self.next() % den < num
    }
    pub fn pick<'a, T>(&mut self, xs: &'a [T]) -> &'a T {
        &xs[self.below(xs.len())]
    }
}
