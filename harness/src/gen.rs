//! Seeded input generators for the recorders.  They only produce inputs; every judgement
//! about the results is made by the TLA+ specification.
#![allow(deprecated, dead_code)]
use crate::run::Rng;
use lipe_find_parser::ast::*;
use lipe_find_parser::Mode;
use std::rc::Rc;

/// strings harvested by the orchestrator from the string literals of the code under test
/// (a special-cased value must be spelt somewhere in the source): used as user strings
pub fn dict() -> &'static Vec<String> {
    static D: std::sync::OnceLock<Vec<String>> = std::sync::OnceLock::new();
    D.get_or_init(|| {
        std::env::var("FPVERIF_DICT").ok().and_then(|p| std::fs::read_to_string(p).ok())
            .map(|t| t.lines().filter_map(|l| serde_json::from_str::<String>(l).ok()).filter(|w| !w.is_empty() && !w.contains('\0')).collect())
            .unwrap_or_default()
    })
}

/// the strings / numbers of the source that the PINNED tree does not have: what a change introduced
pub fn dict_new() -> &'static Vec<String> {
    static D: std::sync::OnceLock<Vec<String>> = std::sync::OnceLock::new();
    D.get_or_init(|| {
        std::env::var("FPVERIF_DICT").ok().and_then(|p| std::fs::read_to_string(format!("{}.new", p)).ok())
            .map(|t| t.lines().filter_map(|l| serde_json::from_str::<String>(l).ok()).filter(|w| !w.is_empty() && !w.contains('\0')).collect())
            .unwrap_or_default()
    })
}
pub fn numdict_new() -> &'static Vec<usize> {
    static D: std::sync::OnceLock<Vec<usize>> = std::sync::OnceLock::new();
    D.get_or_init(|| {
        std::env::var("FPVERIF_DICT").ok().and_then(|p| std::fs::read_to_string(format!("{}.nums.new", p)).ok())
            .map(|t| t.lines().filter_map(|l| l.trim().parse::<usize>().ok()).collect())
            .unwrap_or_default()
    })
}

pub const BLANKS: &[&str] = &[" ", "\t", "\n", "\r", "  ", "\r\n", " \t "];

pub fn numdict() -> &'static Vec<String> {
    static D: std::sync::OnceLock<Vec<String>> = std::sync::OnceLock::new();
    D.get_or_init(|| {
        std::env::var("FPVERIF_DICT").ok().and_then(|p| std::fs::read_to_string(format!("{}.nums", p)).ok())
            .map(|t| t.lines().map(|l| l.trim().to_string()).filter(|l| !l.is_empty()).collect())
            .unwrap_or_default()
    })
}

pub fn rand_number(rng: &mut Rng) -> String {
    let nd = numdict();
    if !nd.is_empty() && rng.chance(1, 4) { return nd[rng.below(nd.len())].clone(); }
    match rng.below(8) {
        0 => "0".into(),
        1 => rng.below(10).to_string(),
        2 => rng.below(100000).to_string(),
        3 => format!("{}", (rng.next() % (1u64 << 33))),
        4 => if rng.chance(1, 2) { format!("{}", rng.next()) } else {
            // a digit string of 19..22 digits: values on either side of 2^64 in every leading-digit band
            // (a wrap-around test that compares with the previous accumulator is fooled only in some bands)
            let n = 19 + rng.below(4);
            let mut t = String::new();
            for k in 0..n { t.push((b'0' + if k == 0 { 1 + rng.below(9) } else { rng.below(10) } as u8) as char); }
            t
        },
        5 => ["4294967295", "4294967296", "18446744073709551615", "18446744073709551616", "2147483648"][rng.below(5)].into(),
        6 => format!("00{}", rng.below(1000)),
        _ => rng.below(70).to_string(),
    }
}

pub fn rand_cmp(rng: &mut Rng) -> String {
    let sign = ["", "+", "-"][rng.below(3)];
    format!("{}{}", sign, rand_number(rng))
}

thread_local! { static RECENT: std::cell::RefCell<Vec<String>> = std::cell::RefCell::new(Vec::new()); }

fn remember(s: &str) {
    RECENT.with(|r| { let mut r = r.borrow_mut(); if r.len() >= 24 { r.remove(0); } r.push(s.to_string()); });
}

/// a string RELATED to one used a moment ago: same file under another spelling, same text in another
/// case, one the prefix / suffix / escaped form of the other ... (defects that depend on the relation
/// between two arguments)
pub fn related(rng: &mut Rng, bare: bool) -> Option<String> {
    let base = RECENT.with(|r| { let r = r.borrow(); if r.is_empty() { None } else { Some(r[rng.below(r.len())].clone()) } })?;
    let v = match rng.below(22) {
        0 => format!("./{}", base),
        1 => format!("{}/", base),
        2 => base.replacen('/', "//", 1),
        3 => base.replacen('/', "/./", 1),
        4 => base.to_uppercase(),
        5 => base.to_lowercase(),
        6 => format!("{}i", base),
        7 => format!("i{}", base),
        8 => format!("{}/i", base),
        9 => format!("{}*", base),
        10 => base.chars().rev().collect(),
        11 => format!("../{}", base),
        12 => format!(".{}", base.trim_start_matches("../")),
        13 => base.replace("./", ""),
        14 => base.replace('\\', "\\\\").replace('"', "\\\""),
        15 => format!("{}{}", base, base),
        16 => base.chars().take(base.chars().count().saturating_sub(1)).collect(),
        17 => format!("{}0", base),
        18 => base.clone(),
        19 => format!("{}.", base),
        20 => format!("{}true", base),
        _ => format!("{} ", base),
    };
    if v.is_empty() { return None; }
    if bare && v.chars().any(|c| c.is_whitespace() || c == ')' || c == '\'' || c == '"') { return None; }
    Some(v)
}

pub fn rand_word(rng: &mut Rng) -> String {
    if rng.chance(1, 6) { if let Some(v) = related(rng, true) { return v; } }
    let w = rand_word_base(rng);
    remember(&w);
    w
}

fn rand_word_base(rng: &mut Rng) -> String {
    // what a change to the code introduced comes first
    let dn = dict_new();
    if !dn.is_empty() && rng.chance(1, 3) {
        let w = &dn[rng.below(dn.len())];
        if !w.chars().any(|c| c.is_whitespace() || c == ')' || c == '\'' || c == '"') { return w.clone(); }
    }
    let d = dict();
    if !d.is_empty() && rng.chance(1, 5) {
        let w = &d[rng.below(d.len())];
        // keep it one bare word for the textual generators
        if !w.chars().any(|c| c.is_whitespace() || c == ')' || c == '\'' || c == '"') { return w.clone(); }
    }
    const WORDS: &[&str] = &["foo", "*.txt", "a?c", "[ab]*", "Foo", "x", "data.out", "lustre", "user.attr", "é", "a-b", "file_1", "OUT", "t*",
        "/dev/null", "/dev/stdout", "-", "/dev/stderr", ".", "..", "stdout", "0", "{}", "#f", "nil",
        "\u{142}\u{f3}d\u{17a}", "\u{65e5}\u{672c}.txt", "\u{1d11e}.ogg", "\u{416}*", "na\u{ef}ve"];
    WORDS[rng.below(WORDS.len())].to_string()
}

pub fn quote_maybe(rng: &mut Rng, w: &str) -> String {
    match rng.below(4) {
        0 if !w.contains('\'') => format!("'{}'", w),
        1 if !w.contains('"') => format!("\"{}\"", w),
        _ => w.to_string(),
    }
}

/// octal or single-clause symbolic permission (multi-clause lists are C08's subject)
pub fn rand_perm1(rng: &mut Rng) -> String {
    let p = rand_perm(rng);
    match p.find(',') { Some(i) => p[..i].to_string(), None => p }
}

pub fn rand_perm(rng: &mut Rng) -> String {
    let pre = ["", "-", "/"][rng.below(3)];
    if rng.chance(1, 12) {
        // an octal number far beyond the twelve permission bits whose LOW digits look like a mode (a conversion that
        // drops the high part accepts it as that mode): 2^32 and beyond, with zeros between
        let high = ["4", "10", "20", "100", "7", "1", "2000", "37777"][rng.below(8)];
        let low = ["644", "755", "022", "000", "7777", "0"][rng.below(6)];
        let zeros = "0".repeat(6 + rng.below(14));
        return format!("{}{}{}{}", pre, high, zeros, low);
    }
    if rng.chance(1, 3) {
        let v = rng.below(4096);
        if rng.chance(1, 2) { format!("{}{:03o}", pre, v) } else { format!("{}{:04o}", pre, v) }
    } else {
        // mostly short lists; sometimes a LONG one (up to 14 clauses: what an early clause sets must survive)
        let n = if rng.chance(1, 6) { 9 + rng.below(6) } else { 1 + rng.below(4) };
        let mut cl = vec![];
        for _ in 0..n {
            let who: String = (0..1 + rng.below(2)).map(|_| ['u', 'g', 'o', 'a'][rng.below(4)]).collect();
            let op = ['+', '-', '='][rng.below(3)];
            let pm: String = (0..1 + rng.below(3)).map(|_| ['r', 'w', 'x'][rng.below(3)]).collect();
            cl.push(format!("{}{}{}", who, op, pm));
        }
        format!("{}{}", pre, cl.join(","))
    }
}

pub fn rand_format(rng: &mut Rng) -> String {
    const PIECES: &[&str] = &["%p", "%P", "%f", "%h", "%s", "%U", "%G", "%m", "%n", "%i", "%b", "%k", "%u", "%g",
        "%a", "%c", "%t", "%A@", "%TY", "%CH", "%y", "%%", "%{fid}", "%{projid}", "%{stripe-count}", "%{stripe-size}",
        "%{mirror-count}", "%{xattr:foo}", "%S", "%H", "\\n", "\\t", "\\\\", "\\0", "\\101", "\\a", "\\r", "\\v", "\\b", "\\f",
        "abc", " ", ",", ":", "x", "-", "\\q", "\\012", "\\033", "\\0", "\\007x", "%d", "%D", "%F", "%l", "%M", "%Y", "%Z", "\\c", "~", "~a"];
    let n = 1 + rng.below(6);
    let mut s = String::new();
    for _ in 0..n {
        s.push_str(PIECES[rng.below(PIECES.len())]);
    }
    if rng.chance(2, 3) { s.push_str("\\n"); }
    s
}

/// one textual primary with a valid argument (mostly)
pub fn rand_primary(rng: &mut Rng) -> String {
    const NOARG: &[&str] = &["-true", "-false", "-empty", "-executable", "-readable", "-writable", "-nouser", "-nogroup",
        "-print", "-print0", "-ls", "-prune", "-quit", "-print-file-fid"];
    const STRKW: &[&str] = &["-name", "-iname", "-path", "-ipath", "-pool", "-xattr", "-anewer", "-cnewer", "-mnewer", "-fstype",
        "-group", "-user", "-ilname", "-iregex", "-regex", "-samefile", "-fprint", "-fprint0", "-fls"];
    const C32: &[&str] = &["-uid", "-gid", "-inum", "-mirror-count", "-stripe-count"];
    const TIMES: &[&str] = &["-amin", "-atime", "-cmin", "-ctime", "-mmin", "-mtime"];
    match rng.below(12) {
        0 | 1 | 2 => NOARG[rng.below(NOARG.len())].to_string(),
        3 | 4 => { let w = rand_word(rng); format!("{} {}", STRKW[rng.below(STRKW.len())], quote_maybe(rng, &w)) }
        5 => format!("{} {}", C32[rng.below(C32.len())], rand_cmp(rng)),
        6 => format!("-links {}", rand_cmp(rng)),
        7 => format!("{} {}{}", TIMES[rng.below(TIMES.len())], rand_cmp(rng), ["", "s", "m", "h", "d"][rng.below(5)]),
        8 => format!("-size {}{}", rand_cmp(rng), ["", "b", "c", "w", "k", "M", "G", "T"][rng.below(8)]),
        9 => {
            let n = 1 + rng.below(3);
            let ts: Vec<&str> = (0..n).map(|_| ["b", "c", "d", "p", "f", "l", "s"][rng.below(7)]).collect();
            format!("-type {}", ts.join(","))
        }
        10 => { let p = rand_perm1(rng); format!("-perm {}", quote_maybe(rng, &p)) }
        _ => match rng.below(3) {
            0 => format!("-printf '{}'", rand_format(rng)),
            1 => format!("-fprintf {} \"{}\"", rand_word(rng), rand_format(rng)),
            _ => format!("-xattr-match {} {}", rand_word(rng), rand_word(rng)),
        },
    }
}

/// a numeric primary with a random (often boundary) number
pub fn rand_numeric_primary(rng: &mut Rng) -> String {
    const C32: &[&str] = &["-uid", "-gid", "-inum", "-mirror-count", "-stripe-count"];
    const TIMES: &[&str] = &["-amin", "-atime", "-cmin", "-ctime", "-mmin", "-mtime"];
    match rng.below(5) {
        0 => format!("{} {}", C32[rng.below(C32.len())], rand_cmp(rng)),
        1 => format!("-links {}", rand_cmp(rng)),
        2 => format!("{} {}{}", TIMES[rng.below(TIMES.len())], rand_cmp(rng), ["", "s", "m", "h", "d"][rng.below(5)]),
        3 => format!("-size {}{}", rand_cmp(rng), ["", "b", "c", "w", "k", "M", "G", "T"][rng.below(8)]),
        _ => format!("-threads {}", rand_number(rng)),
    }
}

pub fn rand_option(rng: &mut Rng) -> String {
    match rng.below(6) {
        0 | 1 => "-depth".to_string(),
        2 | 3 => format!("-threads {}", [1u64, 4, 16, 0, 4294967295][rng.below(5)]),
        4 => format!("-maxdepth {}", rng.below(5)),
        _ => format!("-mindepth {}", rng.below(5)),
    }
}

fn sep(rng: &mut Rng, fancy: bool) -> &'static str {
    if fancy { BLANKS[rng.below(BLANKS.len())] } else { " " }
}

/// random well-formed expression text
pub fn rand_expr_text(rng: &mut Rng, depth: usize, fancy: bool) -> String {
    if depth == 0 || rng.chance(1, 4) {
        return rand_primary(rng);
    }
    match rng.below(7) {
        0 => format!("!{}{}", sep(rng, fancy), rand_atom_text(rng, depth - 1, fancy)),
        1 => {
            let (a, b) = (rand_expr_text(rng, depth - 1, fancy), rand_expr_text(rng, depth - 1, fancy));
            format!("{}{}{}{}{}", a, sep(rng, fancy), ["-o", "-or"][rng.below(2)], sep(rng, fancy), b)
        }
        2 => {
            let (a, b) = (rand_expr_text(rng, depth - 1, fancy), rand_expr_text(rng, depth - 1, fancy));
            format!("{}{},{}{}", a, sep(rng, fancy), sep(rng, fancy), b)
        }
        3 => {
            let (a, b) = (rand_expr_text(rng, depth - 1, fancy), rand_expr_text(rng, depth - 1, fancy));
            format!("{}{}{}{}{}", a, sep(rng, fancy), ["-a", "-and"][rng.below(2)], sep(rng, fancy), b)
        }
        4 => {
            let (a, b) = (rand_expr_text(rng, depth - 1, fancy), rand_expr_text(rng, depth - 1, fancy));
            format!("{}{}{}", a, sep(rng, fancy), b)
        }
        _ => rand_atom_text(rng, depth, fancy),
    }
}

pub fn rand_atom_text(rng: &mut Rng, depth: usize, fancy: bool) -> String {
    if depth == 0 || rng.chance(1, 3) {
        rand_primary(rng)
    } else {
        let inner = rand_expr_text(rng, depth - 1, fancy);
        if fancy && rng.chance(1, 2) { format!("({})", inner) } else { format!("({}{}{})", sep(rng, fancy), inner, sep(rng, fancy)) }
    }
}

/// random word sequence (mostly ill-formed)
pub fn rand_word_soup(rng: &mut Rng, len: usize) -> String {
    const W: &[&str] = &["(", ")", "!", ",", "-a", "-and", "-o", "-or", "-true", "-name x", "-print", "-false", "-uid 5"];
    (0..len).map(|_| W[rng.below(W.len())]).collect::<Vec<_>>().join(" ")
}

const PRIM3: &[&str] = &["-true", "-name x", "-print", "-depth"];

pub fn rand_word_soup3(rng: &mut Rng, len: usize) -> String {
    const W: &[&str] = &["(", ")", "!", ",", "-a", "-and", "-o", "-or", "-true", "-name x", "-print", "-true", "-print", "-depth"];
    // biased towards nearly well-formed sequences: start from a sentence and splice words
    (0..len).map(|_| W[rng.below(W.len())]).collect::<Vec<_>>().join(" ")
}

pub fn rand_expr3_text(rng: &mut Rng, depth: usize) -> String {
    if depth == 0 || rng.chance(1, 4) {
        return PRIM3[rng.below(4)].to_string();
    }
    match rng.below(7) {
        0 => format!("! {}", rand_atom3_text(rng, depth - 1)),
        1 => format!("{} {} {}", rand_expr3_text(rng, depth - 1), ["-o", "-or"][rng.below(2)], rand_expr3_text(rng, depth - 1)),
        2 => format!("{} , {}", rand_expr3_text(rng, depth - 1), rand_expr3_text(rng, depth - 1)),
        3 => format!("{} {} {}", rand_expr3_text(rng, depth - 1), ["-a", "-and"][rng.below(2)], rand_expr3_text(rng, depth - 1)),
        4 => format!("{} {}", rand_expr3_text(rng, depth - 1), rand_expr3_text(rng, depth - 1)),
        _ => rand_atom3_text(rng, depth),
    }
}

pub fn rand_atom3_text(rng: &mut Rng, depth: usize) -> String {
    if depth == 0 || rng.chance(1, 3) { PRIM3[rng.below(4)].to_string() } else { format!("( {} )", rand_expr3_text(rng, depth - 1)) }
}

pub fn mutate(rng: &mut Rng, s: &str) -> String {
    const ALPHA: &[char] = &['0', '7', '8', '9', '+', '-', ',', '/', '=', '%', '\\', 'k', 'u', 'x', ' ', '(', ')', '!', '\'', '"', 'a', 'o', '\t', 'é'];
    let chars: Vec<char> = s.chars().collect();
    let mut c = chars.clone();
    let pos = rng.below(chars.len() + 1);
    match rng.below(4) {
        0 if !c.is_empty() => { c.remove(pos.min(chars.len() - 1)); }
        1 if !c.is_empty() => { c[pos.min(chars.len() - 1)] = ALPHA[rng.below(ALPHA.len())]; }
        2 => { c.insert(pos, ALPHA[rng.below(ALPHA.len())]); }
        _ => { c.truncate(pos); }
    }
    c.into_iter().collect()
}

// ---------------------------------------------------------------------------------------
// random trees through the public constructors (for compile-side recorders)
// ---------------------------------------------------------------------------------------
fn op(o: Operator) -> Expression { Expression::Operator(Rc::new(o)) }

pub struct TreeProfile {
    pub unsupported: bool,   // may contain constructs the target cannot express
    pub exotic: bool,        // Precedence / Global / Positional / DefaultPrint nodes
    pub hostile_strings: bool,
    pub no_direct: bool,     // no -print-file-fid (prints directly, see known finding D13)
    pub kind: String,        // "", "c09", "actions"
}

fn leaf_c09(rng: &mut Rng) -> Expression {
    use Expression as E;
    match rng.below(6) {
        0 => E::Test(Test::True),
        1 => E::Test(Test::False),
        2 => E::Test(Test::Name(if rng.chance(1, 4) { rand_word(rng) } else { "foo.txt".into() })),
        3 => E::Action(Action::Print),
        4 => E::Action(Action::Quit),
        _ => E::Action(Action::FilePrint(if rng.chance(1, 3) { rand_word(rng) } else { "out.txt".into() })),
    }
}

fn nl_fmt(rng: &mut Rng, nl: bool) -> Vec<FormatElement> {
    let mut v = vec![FormatElement::Field(FormatField::NameWithoutStartingPoint)];
    if rng.chance(1, 2) { v.push(FormatElement::Literal(" ".into())); v.push(FormatElement::Field(FormatField::DiskSizeBytes)); }
    if nl { v.push(FormatElement::Special(FormatSpecial::Newline)); }
    v
}

fn leaf_actions(rng: &mut Rng, no_direct: bool) -> Expression {
    use Expression as E;
    let file = || -> String { ["A", "B", "C"][0].to_string() };
    let _ = file;
    let f = if rng.chance(1, 4) { rand_word(rng) } else { ["A", "B", "C", "out.txt"][rng.below(4)].to_string() };
    match rng.below(14) {
        0 => E::Action(Action::Print),
        1 => E::Action(Action::PrintNull),
        2 => E::Action(Action::PrintFormatted(nl_fmt(rng, true))),
        3 => E::Action(Action::PrintFormatted(nl_fmt(rng, false))),
        4 => E::Action(Action::FilePrint(f)),
        5 => E::Action(Action::FilePrintNull(f)),
        6 => E::Action(Action::FilePrintFormatted(f, nl_fmt(rng, true))),
        7 => E::Action(Action::FilePrintFormatted(f, nl_fmt(rng, false))),
        8 => if no_direct { E::Action(Action::Print) } else { E::Action(Action::PrintFid) },
        9 => E::Action(Action::Quit),
        10 => E::Test(Test::True),
        11 => E::Test(Test::False),
        12 => E::Test(Test::Name("foo.txt".into())),
        _ => E::Test(Test::UserId(Comparison::GreaterThan(500))),
    }
}

pub fn rand_string(rng: &mut Rng, hostile: bool) -> String {
    if rng.chance(1, 6) { if let Some(v) = related(rng, false) { return v; } }
    let w = rand_string_base(rng, hostile);
    remember(&w);
    w
}

fn rand_string_base(rng: &mut Rng, hostile: bool) -> String {
    let dn = dict_new();
    if !dn.is_empty() && rng.chance(1, 3) { return dn[rng.below(dn.len())].clone(); }
    let d = dict();
    if !d.is_empty() && rng.chance(1, 5) { return d[rng.below(d.len())].clone(); }
    if hostile && rng.chance(1, 3) {
        const H: &[char] = &['"', '\\', '~', '%', '(', ')', ';', '#', '\n', '\u{1}', 'é', 'a', ' ', '*', '\u{2028}', '\u{3000}', '\u{85}',
            '\u{a0}', '\u{1680}', '\u{200b}', '\u{feff}', '\u{1f600}', '\u{7f}', '\r', '\t', '\u{1b}', '\u{ff}', '\u{100}', '\'', '|', '[', '{', '}'];
        let n = 1 + rng.below(5);
        (0..n).map(|_| H[rng.below(H.len())]).collect()
    } else {
        rand_word_base(rng)
    }
}

pub fn rand_cmp_val<T>(rng: &mut Rng, v: T) -> Comparison<T> {
    match rng.below(3) { 0 => Comparison::GreaterThan(v), 1 => Comparison::LesserThan(v), _ => Comparison::Equal(v) }
}

fn dict_num(rng: &mut Rng) -> Option<u64> {
    let nd = numdict();
    if nd.is_empty() || !rng.chance(1, 4) { return None; }
    nd[rng.below(nd.len())].parse::<u64>().ok()
}

pub fn rand_u32(rng: &mut Rng) -> u32 {
    if let Some(v) = dict_num(rng) { if v <= u32::MAX as u64 { return v as u32; } }
    match rng.below(5) { 0 => 0, 1 => 1, 2 => u32::MAX, 3 => rng.below(1000) as u32, _ => rng.next() as u32 }
}

pub fn rand_u64(rng: &mut Rng) -> u64 {
    if let Some(v) = dict_num(rng) { return v; }
    match rng.below(6) { 0 => 0, 1 => 1, 2 => u64::MAX, 3 => rng.below(1000) as u64, 4 => rng.next() % (1 << 40), _ => rng.next() }
}

pub fn rand_size(rng: &mut Rng) -> Size {
    // keep count*unit within u64 so that the helper is defined (overflow is C07/C03's topic)
    let which = rng.below(7);
    let unit: u64 = [1, 2, 512, 1 << 10, 1 << 20, 1 << 30, 1 << 40][which];
    let n = match rng.below(4) { 0 => 0, 1 => 1, 2 => u64::MAX / unit, _ => rng.next() % (u64::MAX / unit) % 100000 };
    match which { 0 => Size::Byte(n), 1 => Size::Word(n), 2 => Size::Block(n), 3 => Size::KiloByte(n), 4 => Size::MegaByte(n), 5 => Size::GigaByte(n), _ => Size::TeraByte(n) }
}

pub fn rand_time(rng: &mut Rng) -> TimeSpec {
    let n = match dict_num(rng) { Some(v) if v < 1_000_000 => v, _ => match rng.below(4) { 0 => 0, 1 => 1, 2 => rng.below(400) as u64, _ => rng.below(100000) as u64 } };
    match rng.below(4) { 0 => TimeSpec::Second(n), 1 => TimeSpec::Minute(n), 2 => TimeSpec::Hour(n), _ => TimeSpec::Day(n) }
}

pub fn rand_elements(rng: &mut Rng, p: &TreeProfile) -> Vec<FormatElement> {
    let n = rng.below(6);
    let mut v = vec![];
    for _ in 0..n {
        let e = match rng.below(10) {
            0 | 1 | 2 => {
                if matches!(v.last(), Some(FormatElement::Literal(_))) { FormatElement::Special(FormatSpecial::TabHorizontal) }
                else { FormatElement::Literal(rand_string(rng, p.hostile_strings)) }
            }
            3 | 4 | 5 | 6 => {
                const F: &[FormatField] = &[FormatField::Percent, FormatField::Access, FormatField::DiskSizeBlocks, FormatField::Change,
                    FormatField::Basename, FormatField::Group, FormatField::GroupId, FormatField::Parents, FormatField::StartingPoint,
                    FormatField::InodeDecimal, FormatField::DiskSizeKilos, FormatField::PermissionsOctal, FormatField::Hardlinks,
                    FormatField::Name, FormatField::NameWithoutStartingPoint, FormatField::DiskSizeBytes, FormatField::Sparseness,
                    FormatField::Modify, FormatField::User, FormatField::UserId, FormatField::Type, FormatField::FileId,
                    FormatField::ProjectId, FormatField::MirrorCount, FormatField::StripeCount, FormatField::StripeSize];
                const U: &[FormatField] = &[FormatField::Depth, FormatField::DeviceNumber, FormatField::FsType, FormatField::SymbolicTarget,
                    FormatField::PermissionsSymbolic, FormatField::TypeSymlink, FormatField::SecurityContext];
                if p.unsupported && rng.chance(1, 8) { FormatElement::Field(U[rng.below(U.len())].clone()) }
                else {
                    match rng.below(8) {
                        0 => FormatElement::Field(FormatField::AccessFormatted(['@', 'Y', 'H', 'd'][rng.below(4)])),
                        1 => FormatElement::Field(FormatField::ModifyFormatted(['@', 'Y', 'H', 'd'][rng.below(4)])),
                        2 => FormatElement::Field(FormatField::XAttr(rand_string(rng, false))),
                        _ => FormatElement::Field(F[rng.below(F.len())].clone()),
                    }
                }
            }
            _ => {
                const S: &[FormatSpecial] = &[FormatSpecial::Alarm, FormatSpecial::Backspace, FormatSpecial::Form, FormatSpecial::Newline,
                    FormatSpecial::CarriageReturn, FormatSpecial::TabHorizontal, FormatSpecial::TabVertical, FormatSpecial::Null,
                    FormatSpecial::Backslash, FormatSpecial::Ascii(65), FormatSpecial::Ascii(34), FormatSpecial::Ascii(126)];
                FormatElement::Special(S[rng.below(S.len())].clone())
            }
        };
        v.push(e);
    }
    if rng.chance(2, 3) { v.push(FormatElement::Special(FormatSpecial::Newline)); }
    if p.exotic && rng.chance(1, 3) {
        // element lists only the public types can express: empty literals (anywhere, also after the final
        // newline), adjacent literals, a newline that is present but not last
        match rng.below(5) {
            0 => v.push(FormatElement::Literal(String::new())),
            1 => { v.push(FormatElement::Literal(String::new())); v.push(FormatElement::Literal(String::new())); }
            2 => v.insert(0, FormatElement::Literal(String::new())),
            3 => { let at = rng.below(v.len() + 1); v.insert(at, FormatElement::Literal(String::new())); }
            _ => { v.push(FormatElement::Literal("a".into())); v.push(FormatElement::Literal("b".into())); }
        }
    }
    v
}

pub fn rand_leaf(rng: &mut Rng, p: &TreeProfile) -> Expression {
    use Expression as E;
    let hs = p.hostile_strings;
    if p.kind == "c09" { return leaf_c09(rng); }
    if p.kind == "actions" { return leaf_actions(rng, p.no_direct); }
    if p.kind == "numeric" {
        return match rng.below(8) {
            0 => E::Test(Test::UserId({ let v = rand_u32(rng); rand_cmp_val(rng, v) })),
            1 => E::Test(Test::GroupId({ let v = rand_u32(rng); rand_cmp_val(rng, v) })),
            2 => E::Test(Test::InodeNumber({ let v = rand_u32(rng); rand_cmp_val(rng, v) })),
            3 => E::Test(Test::Links({ let v = rand_u64(rng); rand_cmp_val(rng, v) })),
            4 => E::Test(Test::StripeCount({ let v = rand_u32(rng); rand_cmp_val(rng, v) })),
            5 | 6 => E::Test(Test::Size({ let v = rand_size(rng); rand_cmp_val(rng, v) })),
            _ => E::Test(Test::AccessTime({ let v = rand_time(rng); rand_cmp_val(rng, v) })),
        };
    }
    if p.exotic && rng.chance(1, 12) {
        return match rng.below(4) {
            0 => E::Global(GlobalOption::Depth),
            1 => E::Global(GlobalOption::Threads(rand_u32(rng))),
            2 => E::Positional(PositionalOption::XDev),
            _ => E::Action(Action::DefaultPrint),
        };
    }
    if p.unsupported && rng.chance(1, 10) {
        return match rng.below(16) {
            0 => E::Test(Test::AccessNewer(rand_string(rng, hs))),
            1 => E::Test(Test::ChangeNewer(rand_string(rng, hs))),
            2 => E::Test(Test::FsType(rand_string(rng, hs))),
            3 => E::Test(Test::Group(rand_string(rng, hs))),
            4 => E::Test(Test::InsensitiveLinkName(rand_string(rng, hs))),
            5 => E::Test(Test::InsensitiveRegex(rand_string(rng, hs))),
            6 => E::Test(Test::LinkName(rand_string(rng, hs))),
            7 => E::Test(Test::ModifyNewer(rand_string(rng, hs))),
            8 => E::Test(Test::NoGroup),
            9 => E::Test(Test::NoUser),
            10 => E::Test(Test::Regex(rand_string(rng, hs))),
            11 => E::Test(Test::Samefile(rand_string(rng, hs))),
            12 => E::Test(Test::User(rand_string(rng, hs))),
            13 => E::Action(Action::Prune),
            14 => E::Action(Action::List),
            _ => E::Action(Action::FileList(rand_string(rng, hs))),
        };
    }
    match rng.below(34) {
        0 => E::Test(Test::AccessTime({ let v = rand_time(rng); rand_cmp_val(rng, v) })),
        1 => E::Test(Test::ChangeTime({ let v = rand_time(rng); rand_cmp_val(rng, v) })),
        2 => E::Test(Test::ModifyTime({ let v = rand_time(rng); rand_cmp_val(rng, v) })),
        3 => E::Test(Test::Empty),
        4 => E::Test(Test::Executable),
        5 => E::Test(Test::False),
        6 => E::Test(Test::GroupId({ let v = rand_u32(rng); rand_cmp_val(rng, v) })),
        7 => E::Test(Test::InodeNumber({ let v = rand_u32(rng); rand_cmp_val(rng, v) })),
        8 => E::Test(Test::InsensitiveName(rand_string(rng, hs))),
        9 => E::Test(Test::InsensitivePath(rand_string(rng, hs))),
        10 => E::Test(Test::Links({ let v = rand_u64(rng); rand_cmp_val(rng, v) })),
        11 => E::Test(Test::MirrorCount({ let v = rand_u32(rng); rand_cmp_val(rng, v) })),
        12 => E::Test(Test::Name(rand_string(rng, hs))),
        13 => E::Test(Test::Path(rand_string(rng, hs))),
        14 => {
            let m = Permission(Mode::from_bits(rng.below(4096) as u32).unwrap());
            E::Test(Test::Perm(match rng.below(3) { 0 => PermCheck::Equal(m), 1 => PermCheck::AtLeast(m), _ => PermCheck::Any(m) }))
        }
        15 => E::Test(Test::Pool(rand_string(rng, hs))),
        16 => E::Test(Test::Readable),
        17 => E::Test(Test::Size({ let v = rand_size(rng); rand_cmp_val(rng, v) })),
        18 => E::Test(Test::StripeCount({ let v = rand_u32(rng); rand_cmp_val(rng, v) })),
        19 => E::Test(Test::True),
        20 => {
            const T: &[FileType] = &[FileType::Block, FileType::Character, FileType::Directory, FileType::Pipe, FileType::File, FileType::Link, FileType::Socket];
            let n = 1 + rng.below(3);
            E::Test(Test::Type((0..n).map(|_| T[rng.below(7)].clone()).collect()))
        }
        21 => E::Test(Test::UserId({ let v = rand_u32(rng); rand_cmp_val(rng, v) })),
        22 => E::Test(Test::Writable),
        23 => E::Test(Test::Xattr(rand_string(rng, hs))),
        24 => E::Test(Test::XattrMatch(rand_string(rng, hs), rand_string(rng, hs))),
        25 => E::Action(Action::Print),
        26 => E::Action(Action::PrintNull),
        27 => E::Action(Action::PrintFormatted(rand_elements(rng, p))),
        28 => E::Action(Action::FilePrint(rand_string(rng, hs))),
        29 => E::Action(Action::FilePrintNull(rand_string(rng, hs))),
        30 => E::Action(Action::FilePrintFormatted(rand_string(rng, hs), rand_elements(rng, p))),
        31 => if p.no_direct { E::Action(Action::Print) } else { E::Action(Action::PrintFid) },
        32 => E::Action(Action::Quit),
        _ => E::Test(Test::Name(rand_string(rng, hs))),
    }
}

/// a test of the same kind as `e` with a related argument (subset / superset / disjoint / equal)
fn sibling(rng: &mut Rng, e: &Expression) -> Option<Expression> {
    use Expression as E;
    Some(match e {
        E::Test(Test::Perm(pc)) => {
            let (PermCheck::Any(m) | PermCheck::AtLeast(m) | PermCheck::Equal(m)) = pc;
            let bits = m.0.bits();
            let b2 = match rng.below(4) { 0 => bits & (bits >> 1 | 0o444), 1 => bits | 0o222, 2 => bits & !(bits & bits.wrapping_neg()), _ => bits };
            let m2 = Permission(Mode::from_bits(b2 & 0o7777).unwrap());
            E::Test(Test::Perm(match (pc, rng.below(3)) { (PermCheck::Any(_), 0) | (_, 1) => PermCheck::Any(m2), (PermCheck::AtLeast(_), 0) | (_, 2) => PermCheck::AtLeast(m2), _ => PermCheck::Equal(m2) }))
        }
        E::Test(Test::Type(ts)) => {
            const T: &[FileType] = &[FileType::Block, FileType::Character, FileType::Directory, FileType::Pipe, FileType::File, FileType::Link, FileType::Socket];
            match rng.below(3) { 0 => E::Test(Test::Type(vec![T[rng.below(7)].clone()])), 1 => { let mut v = ts.clone(); v.push(T[rng.below(7)].clone()); E::Test(Test::Type(v)) }, _ => E::Test(Test::Type(ts.clone())) }
        }
        E::Test(Test::UserId(c)) => { let (Comparison::GreaterThan(n) | Comparison::LesserThan(n) | Comparison::Equal(n)) = c; let d = rng.below(3) as u32; E::Test(Test::UserId(rand_cmp_val(rng, n.saturating_add(d).saturating_sub(1)))) }
        E::Test(Test::Size(c)) => { let (Comparison::GreaterThan(n) | Comparison::LesserThan(n) | Comparison::Equal(n)) = c; E::Test(Test::Size(rand_cmp_val(rng, n.clone()))) }
        _ => return None,
    })
}

pub fn rand_tree(rng: &mut Rng, size: usize, p: &TreeProfile) -> Expression {
    if size <= 1 {
        return rand_leaf(rng, p);
    }
    if size >= 2 && rng.chance(1, 7) {
        // relations between operands: X op X, X op !X, !X op X, a test beside a sibling of its own kind
        let l = rand_tree(rng, (size - 1).max(1) / 2 + 1, p);
        let r = match rng.below(4) {
            0 => l.clone(),
            1 => op(Operator::Not(l.clone())),
            2 => match sibling(rng, &l) { Some(s) => s, None => l.clone() },
            _ => { let x = l.clone(); return match rng.below(3) { 0 => op(Operator::And(op(Operator::Not(x)), l)), 1 => op(Operator::Or(op(Operator::Not(x)), l)), _ => op(Operator::List(x, l)) }; }
        };
        return match rng.below(3) { 0 => op(Operator::And(l, r)), 1 => op(Operator::Or(l, r)), _ => op(Operator::List(l, r)) };
    }
    match rng.below(if p.exotic { 9 } else { 8 }) {
        0 | 1 => op(Operator::Not(rand_tree(rng, size - 1, p))),
        2 | 3 | 4 => { let l = 1 + rng.below(size - 1); op(Operator::And(rand_tree(rng, l, p), rand_tree(rng, size - 1 - l.min(size - 2), p))) }
        5 | 6 => { let l = 1 + rng.below(size - 1); op(Operator::Or(rand_tree(rng, l, p), rand_tree(rng, size - 1 - l.min(size - 2), p))) }
        7 => { let l = 1 + rng.below(size - 1); op(Operator::List(rand_tree(rng, l, p), rand_tree(rng, size - 1 - l.min(size - 2), p))) }
        _ => op(Operator::Precedence(rand_tree(rng, size - 1, p))),
    }
}

/// AND chain with n resources in a seeded first-occurrence order, with deliberate repeats,
/// case-only differences and pattern/literal pairs (C10, C11)
pub fn rand_chain(rng: &mut Rng, n: usize) -> Expression {
    use Expression as E;
    let mut items: Vec<Expression> = vec![];
    for i in 0..n {
        let r = rng.below(12);
        let idx = if rng.chance(1, 8) && i > 0 { rng.below(i) } else { i };   // repeat an earlier resource sometimes
        if rng.chance(1, 10) {
            // a name RELATED to an earlier one (./x, x/, x//y, X, xi, x/i, ../x vs .x ...), same terminator kind
            if let Some(v) = related(rng, false).filter(|v| n <= 12 || !v.contains('\\')) {
                items.push(match rng.below(4) { 0 => E::Action(Action::FilePrint(v)), 1 => E::Action(Action::FilePrintNull(v)),
                    2 => op(Operator::Or(E::Test(Test::Name(v)), E::Test(Test::True))), _ => op(Operator::Or(E::Test(Test::InsensitivePath(v)), E::Test(Test::True))) });
                continue;
            }
        }
        let e = match r {
            0 | 1 => { let f = format!("d/f{}", idx); remember(&f); E::Action(Action::FilePrint(f)) }
            2 => E::Action(Action::FilePrintNull(format!("f{}", idx))),
            3 => E::Action(Action::FilePrintFormatted(format!("f{}", idx), nl_fmt(rng, true))),
            4 => E::Action(Action::FilePrintFormatted(format!("f{}", idx), nl_fmt(rng, false))),
            // (what a backslash in a pattern means is left to the runtime, and a program holding one is only checked
            // statically: long chains, whose point is that every resource is EXERCISED, do without)
            5 => if rng.chance(1, 4) && n <= 12 { E::Test(Test::Name(["a\\b", "a\\\\b", "q\"x", "q\\\"x", "t\u{1}", "t\\x01"][rng.below(6)].to_string())) }
                 else if rng.chance(1, 4) { E::Test(Test::Name(["q\"x", "t\u{1}", "~a", "q\"x*"][rng.below(4)].to_string())) }
                 else { E::Test(Test::Name(format!("n{}*", idx))) },
            6 => { let f = format!("n{}", idx); remember(&f); E::Test(Test::Name(f)) }
            7 => E::Test(Test::InsensitiveName(format!("n{}*", idx))),
            8 => E::Test(Test::InsensitiveName(format!("N{}", idx))),
            9 => E::Test(Test::Path(format!("*/n{}", idx))),
            10 => E::Action(Action::PrintNull),
            _ => E::Action(Action::Print),
        };
        // tests are wrapped so that the chain goes on whatever their truth: ( test -o -true )
        let e = match e { E::Test(_) => op(Operator::Or(e, E::Test(Test::True))), other => other };
        items.push(e);
    }
    if !items.iter().any(|e| matches!(e, E::Action(Action::FilePrint(_)) | E::Action(Action::FilePrintNull(_)) | E::Action(Action::FilePrintFormatted(_, _)) | E::Action(Action::PrintNull))) {
        items.push(E::Action(Action::PrintNull));
    }
    // a balanced AND tree: same left-to-right order of first occurrences, but a nesting depth that the
    // JSON reader on the TLC side accepts (gson stops at 255 levels)
    fn balanced(items: &[Expression]) -> Expression {
        if items.len() == 1 { return items[0].clone(); }
        let mid = items.len() / 2;
        op(Operator::And(balanced(&items[..mid]), balanced(&items[mid..])))
    }
    balanced(&items)
}

/// the ladder of sizes used wherever an input has a SIZE (depth, length, count): the usual limits and their
/// neighbours, plus every integer literal of the source of the code under test (and +-1) in range
pub const STD_LADDER: &[usize] = &[8, 16, 20, 30, 32, 33, 39, 40, 41, 47, 48, 49, 50, 63, 64, 65, 80, 81, 100, 127, 128, 129, 150, 151, 192, 193, 200, 240, 255, 256,
                                 257, 300, 500, 511, 512, 513, 1000, 1023, 1024, 1025, 2047, 2048, 2049, 4095, 4096, 4097, 5000];
pub fn ladder(lo: usize, hi: usize) -> Vec<usize> {
    let mut v: Vec<usize> = STD_LADDER.to_vec();
    for n in numdict() { if let Ok(x) = n.parse::<usize>() { v.push(x); } }
    for x in numdict_new() { v.push(*x); }
    v.retain(|x| *x >= lo && *x <= hi);
    v.sort();
    v.dedup();
    v
}

/// DEEP trees (the depth is the point; few distinct resources): right-nested groups with the only action at the
/// bottom, left-deep rule lists whose FIRST rule alone needs framed output, chains of negations, and the same
/// without any action.  `shape` names the family, `d` the depth.
pub fn spine_trees(depths: &[usize], exotic: bool) -> Vec<(String, usize, Expression)> {
    use Expression as E;
    let name = |i: usize| E::Test(Test::Name(["g", "h*", "leaf"][i % 3].to_string()));
    let nl = || vec![FormatElement::Field(FormatField::NameWithoutStartingPoint), FormatElement::Special(FormatSpecial::Newline)];
    let nonl = || vec![FormatElement::Field(FormatField::NameWithoutStartingPoint), FormatElement::Special(FormatSpecial::Null)];
    let mut out = vec![];
    for &d in depths {
        for (k, bottom) in [E::Action(Action::Print), E::Action(Action::Quit), E::Action(Action::FilePrint("o".into())), E::Test(Test::True),
                            op(Operator::Not(E::Action(Action::Print)))].into_iter().enumerate() {
            // right-nested: g -o ( h -o ( leaf -o ( ... bottom ) ) )   and with -a / ,
            let mut t = op(Operator::And(name(2), bottom.clone()));
            for i in 0..d { t = match (k + i) % 3 { 0 => op(Operator::Or(name(i), t)), 1 => op(Operator::Or(op(Operator::And(name(i), E::Test(Test::False))), t)), _ => op(Operator::List(name(i), t)) }; }
            out.push((format!("right-{}", k), d, t));
        }
        for (k, first) in [E::Action(Action::PrintNull), E::Action(Action::PrintFormatted(nonl())), E::Action(Action::FilePrint("big.txt".into())),
                           E::Action(Action::PrintFormatted(nl())), E::Action(Action::Print)].into_iter().enumerate() {
            // left-deep rule list: rule1 -o rule2 -o ... ; only the FIRST rule's action decides the mode
            let mut t = op(Operator::And(name(0), first.clone()));
            for i in 1..d { t = op(Operator::Or(t, op(Operator::And(name(i), E::Action(Action::Print))))); }
            out.push((format!("rules-{}", k), d, t));
            // left-deep AND chain of tests that always hold, the only action first
            let mut t = first.clone();
            for i in 1..d { t = op(Operator::And(t, op(Operator::Or(name(i), E::Test(Test::True))))); }
            out.push((format!("and-{}", k), d, t));
        }
        // FLAT sentences 't1 t2 ... tn' (left-deep): the only action LAST, last but one, in the middle -- a walk that
        // keeps the pending right-hand sides on a bounded stack loses exactly these (seed C09-i)
        for (k, act) in [E::Action(Action::Print), E::Action(Action::FilePrint("o".into())), E::Action(Action::Quit)].into_iter().enumerate() {
            for (pn, pos) in [("last", d), ("last1", d.saturating_sub(1)), ("mid", d / 2)] {
                let mut t = op(Operator::Or(name(0), E::Test(Test::True)));
                for i in 1..=d { t = op(Operator::And(t, if i == pos { act.clone() } else { op(Operator::Or(name(i), E::Test(Test::True))) })); }
                out.push((format!("flat-and-{}-{}", pn, k), d, t));
            }
            let mut t = op(Operator::And(name(0), E::Test(Test::False)));
            for i in 1..=d { t = op(Operator::Or(t, if i == d { act.clone() } else { op(Operator::And(name(i), E::Test(Test::False))) })); }
            out.push((format!("flat-or-last-{}", k), d, t));
        }
        for (k, bottom) in [E::Action(Action::Print), E::Test(Test::True), E::Action(Action::FilePrintNull("z".into()))].into_iter().enumerate() {
            let mut t = bottom.clone();
            for i in 0..d { t = if exotic && i % 5 == 4 { op(Operator::Precedence(t)) } else { op(Operator::Not(t)) }; }
            out.push((format!("not-{}", k), d, t));
        }
    }
    out
}

/// deep programs for the concurrency check (every test holds for every file, so every action fires): a rule list
/// whose FIRST rule prints and fails, followed by d-1 rules that print a line; an AND chain with the first action in
/// front of d-1 tests and a final -print
pub fn spine16(depths: &[usize]) -> Vec<(String, usize, Expression)> {
    use Expression as E;
    let any = || E::Test(Test::Name("*".to_string()));
    let nl = || vec![FormatElement::Field(FormatField::NameWithoutStartingPoint), FormatElement::Special(FormatSpecial::Newline)];
    let nonl = || vec![FormatElement::Field(FormatField::NameWithoutStartingPoint), FormatElement::Special(FormatSpecial::Null)];
    let mut out = vec![];
    for &d in depths {
        for (k, first) in [E::Action(Action::PrintNull), E::Action(Action::PrintFormatted(nonl())), E::Action(Action::FilePrint("A".into())),
                           E::Action(Action::PrintFormatted(nl()))].into_iter().enumerate() {
            let mut t = op(Operator::And(op(Operator::And(any(), first.clone())), E::Test(Test::False)));
            for _ in 1..d { t = op(Operator::Or(t, op(Operator::And(any(), E::Action(Action::Print))))); }
            out.push((format!("rules16-{}", k), d, t));
            let mut t = first.clone();
            for _ in 1..d { t = op(Operator::And(t, op(Operator::Or(any(), E::Test(Test::True))))); }
            t = op(Operator::And(t, E::Action(Action::Print)));
            out.push((format!("and16-{}", k), d, t));
        }
    }
    out
}

/// every string the change introduced (and the names that are special on a Unix system or to the scanner) as the
/// argument of every string-carrying test and action, alone and in the usual idioms
pub fn word_programs() -> Vec<Expression> {
    use Expression as E;
    let mut words: Vec<String> = dict_new().iter().filter(|w| w.chars().count() <= 40).take(80).cloned().collect();
    for w in ["/dev/null", "/dev/stdout", "/dev/stderr", "/dev/tty", "/dev/fd/1", "/proc/self/fd/1", "-", "--", ".", "..", "/", "", "lustre", "ext4", "root", "nobody", "0", "*",
              "stdout", "stderr", "NUL", "CON", "/dev/zero", "/tmp", "~", "$HOME"] { if !words.iter().any(|x| x == w) { words.push(w.to_string()); } }
    let nl = || vec![FormatElement::Field(FormatField::NameWithoutStartingPoint), FormatElement::Special(FormatSpecial::Newline)];
    let big = || E::Test(Test::Size(Comparison::GreaterThan(Size::MegaByte(100))));
    let mut out = vec![];
    for w in &words {
        if w.is_empty() { continue; }
        let w = w.clone();
        for a in [Action::FilePrint(w.clone()), Action::FilePrintNull(w.clone()), Action::FilePrintFormatted(w.clone(), nl())] {
            out.push(E::Action(a.clone()));
            // the idiom: silence the default print for some files, list the others
            out.push(op(Operator::Or(op(Operator::And(big(), E::Action(a.clone()))), E::Test(Test::Name("*.tmp".into())))));
            out.push(op(Operator::And(op(Operator::Not(E::Action(a.clone()))), E::Test(Test::True))));
            out.push(op(Operator::And(E::Action(a), E::Action(Action::Print))));
        }
        for t in [Test::Name(w.clone()), Test::InsensitiveName(w.clone()), Test::Path(w.clone()), Test::Pool(w.clone()), Test::FsType(w.clone()),
                  Test::User(w.clone()), Test::Group(w.clone()), Test::Xattr(w.clone())] {
            out.push(E::Test(t.clone()));
            out.push(op(Operator::Or(op(Operator::And(E::Test(t), E::Action(Action::PrintNull))), E::Action(Action::Print))));
        }
    }
    out
}

/// formats with MANY elements (n fields separated by one-character literals), ending in a newline or not, to
/// standard output and to a file -- alone, so that one policy call emits exactly one record
pub fn long_format_programs(sizes: &[usize]) -> Vec<(String, usize, Expression)> {
    use Expression as E;
    const F: &[FormatField] = &[FormatField::NameWithoutStartingPoint, FormatField::DiskSizeBytes, FormatField::UserId, FormatField::GroupId, FormatField::Hardlinks];
    let mut out = vec![];
    for &n in sizes {
        let mut els = vec![];
        while els.len() + 1 < n { els.push(FormatElement::Field(F[(els.len() / 2) % F.len()].clone())); if els.len() + 1 < n { els.push(FormatElement::Literal("|".into())); } }
        let mut with_nl = els.clone(); with_nl.push(FormatElement::Special(FormatSpecial::Newline));
        let mut no_nl = els.clone(); no_nl.push(FormatElement::Field(FormatField::Basename));
        out.push((format!("fmt-nl"), n, E::Action(Action::PrintFormatted(with_nl.clone()))));
        out.push((format!("fmt-nonl"), n, E::Action(Action::PrintFormatted(no_nl))));
        out.push((format!("fmt-file"), n, E::Action(Action::FilePrintFormatted("A".into(), with_nl.clone()))));
        out.push((format!("fmt-nl-print"), n, op(Operator::And(E::Action(Action::PrintFormatted(with_nl)), E::Action(Action::Print)))));
    }
    out
}

/// Systematic sweep for NON-INJECTIVE resource keys (C10, C11, C04, C15): pairs of requests that are
/// different but become equal if the case flag is folded into the pattern text with some affix, or if file
/// names are "normalised".  Affixes are the short words of the source dictionary plus a few usual suspects.
pub fn affix_programs() -> Vec<Expression> {
    use Expression as E;
    let mut affixes: Vec<String> = ["i", "/i", ":i", "I", "1", "0", "true", "false", "ci", "_ci", "-i", "\\", "*", ".", "/", " ", "-ci", "/ci", "(?i)", "#i", "|i", ",i", "~i",
                                    "\u{1}", "\u{0}i", "-nocase", ":ci", "[i]", "%i"].iter().map(|s| s.to_string()).collect();
    for w in dict() { if w.chars().count() <= 3 && !affixes.contains(w) { affixes.push(w.clone()); } }
    // whatever a change to the code introduced (a separator, a flag spelling) is a candidate affix too
    for w in dict_new() { if w.chars().count() <= 10 && !affixes.contains(w) { affixes.push(w.clone()); } }
    let mut out = vec![];
    let wrap = |t: Test| op(Operator::Or(E::Test(t), E::Test(Test::True)));
    let chain = |items: Vec<Expression>| { let mut it = items.into_iter(); let mut acc = it.next().unwrap(); for e in it { acc = op(Operator::And(acc, e)); } acc };
    for base in ["foo", "src/lib", "a*"] {
        for a in &affixes {
            for (p2, _) in [(format!("{}{}", base, a), 0), (format!("{}{}", a, base), 1)] {
                for (c1, c2) in [(true, false), (false, true), (false, false)] {
                    let t1 = if c1 { Test::InsensitiveName(base.to_string()) } else { Test::Name(base.to_string()) };
                    let t2 = if c2 { Test::InsensitivePath(p2.clone()) } else { Test::Path(p2.clone()) };
                    out.push(chain(vec![wrap(t1), wrap(t2), E::Action(if a.len() % 2 == 0 { Action::Print } else { Action::PrintNull })]));
                }
            }
        }
    }
    // file names under different spellings: distinct strings are distinct destinations
    for base in ["out", "d/out", "../out", "logs./today", "a/b/c"] {
        let b = base.to_string();
        let vars = vec![format!("./{}", b), format!("{}/", b), b.replacen('/', "//", 1), b.replacen('/', "/./", 1), b.replace("./", ""),
                        format!(".{}", b.trim_start_matches("../")), format!("{}/.", b), b.to_uppercase(), format!("{} ", b), format!("/{}", b)];
        for v in vars {
            if v == b || v.is_empty() { continue; }
            for k in 0..3 {
                let mk = |f: &str| match k { 0 => Action::FilePrint(f.to_string()), 1 => Action::FilePrintNull(f.to_string()),
                                             _ => Action::FilePrintFormatted(f.to_string(), vec![FormatElement::Field(FormatField::NameWithoutStartingPoint), FormatElement::Special(FormatSpecial::Newline)]) };
                out.push(chain(vec![E::Action(mk(&b)), E::Action(mk(&v))]));
                out.push(chain(vec![E::Action(mk(&v)), E::Action(mk(&b)), E::Action(Action::FilePrint(v.clone()))]));
            }
        }
    }
    // the same pattern with and without regard to case, for patterns WITHOUT an ASCII letter (digits, punctuation,
    // cased letters beyond ASCII): two different requests, and the case-blind one must match the other-case spelling
    for b in ["\u{416}\u{423}\u{41a}*", "\u{c9}T\u{c9}_*", "\u{394}\u{39f}\u{39a}", "123*", "_.-", "\u{142}\u{f3}d\u{17a}*", "\u{436}\u{443}\u{43a}", "\u{e9}*"] {
        for k in 0..2 {
            let (ci, cs) = if k == 0 { (Test::InsensitiveName(b.to_string()), Test::Name(b.to_string())) } else { (Test::InsensitivePath(b.to_string()), Test::Path(b.to_string())) };
            out.push(chain(vec![wrap(ci.clone()), wrap(cs.clone()), E::Action(Action::PrintNull)]));
            out.push(chain(vec![wrap(cs.clone()), wrap(ci.clone()), E::Action(Action::Print)]));
            out.push(chain(vec![op(Operator::And(E::Test(ci.clone()), E::Action(Action::Print)))]));
            out.push(chain(vec![op(Operator::Or(op(Operator::And(E::Test(ci), E::Action(Action::FilePrint("ci".into())))), op(Operator::And(E::Test(cs), E::Action(Action::FilePrint("cs".into()))))))]));
        }
    }
    // strings that need escaping in the emitted text, requested TWICE, and beside their own escaped spelling
    // (either order): a resource table keyed by the raw text in one place and by the escaped text in another
    // stops sharing identical requests, or shares different ones
    let esc = |p: &str| { let mut o = String::new(); for c in p.chars() { match c { '\\' => o.push_str("\\\\"), '"' => o.push_str("\\\""),
                              c if (c as u32) < 0x20 || c as u32 == 0x7f => o.push_str(&format!("\\x{:02x};", c as u32)), c => o.push(c) } } o };
    for p in ["a\"b", "a\\b", "a\\\\b", "t\u{1}z", "q\u{7f}", "x\ny", "\"", "\\", "a\\\"b", "~a", "\u{e9}\"", "*\"*", "[\"]"] {
        let e1 = esc(p);
        let e2 = esc(&e1);
        for k in 0..4 {
            let mk = |v: &str| match k { 0 => wrap(Test::Name(v.to_string())), 1 => wrap(Test::InsensitivePath(v.to_string())),
                                         2 => E::Action(Action::FilePrint(v.to_string())), _ => E::Action(Action::FilePrintNull(v.to_string())) };
            let tail = if k < 2 { Action::PrintNull } else { Action::Print };
            out.push(chain(vec![mk(p), mk(p), E::Action(tail.clone())]));
            out.push(chain(vec![mk(p), mk(&e1), mk(p), E::Action(tail.clone())]));
            out.push(chain(vec![mk(&e1), mk(p), mk(&e1), E::Action(tail.clone())]));
            out.push(chain(vec![mk(p), mk(&e1), mk(&e2), mk(&e1), E::Action(tail.clone())]));
        }
    }
    out
}
