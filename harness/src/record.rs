//! Implementation -> spec: drive the real API and log one ndjson event per public call at
//! its return (error and panic paths included) for the TLA+ trace specifications.
use crate::gen::*;
use crate::proj::*;
use crate::replay::tlc_unquote;
use crate::run::*;
use crate::Opts;
use serde_json::{json, Value};
use std::io::{BufRead, Write};

fn emit(out: &mut impl Write, v: &Value) {
    let _ = writeln!(out, "{}", v);
}

/// record-parse --mode grammar|vocab|mutate|layout|mixed --count N --seed S
pub fn record_parse(opts: &Opts) -> i32 {
    let seed = opts.num("seed", 1);
    let count = opts.num("count", 1000);
    let mode = opts.str("mode", "mixed");
    let mut rng = Rng(seed ^ 0x5eed_0001);
    let out = std::io::stdout();
    let mut out = out.lock();
    if let Some(path) = opts.get("from") {
        // re-observe given inputs: one {"i": code points} per line
        let text = std::fs::read_to_string(path).unwrap_or_default();
        for line in text.lines() {
            let v: Value = match serde_json::from_str(line) { Ok(v) => v, Err(_) => continue };
            if let Some(input) = v.get("i").and_then(from_cps) {
                let obs = run_parse(&input);
                emit(&mut out, &json!({"i": cps(&input), "obs": parse_out_json(&obs)}));
            }
        }
        return 0;
    }
    if mode == "chains" {
        // LONG chains of one operator (and mixtures): the SHAPE of the returned tree is logged as the pre-order
        // sequence of its node kinds (the trees are deeper than the JSON readers accept); TLC compares it with the
        // pre-order sequence of the tree the specification gives
        fn tags(e: &lipe_find_parser::ast::Expression, out: &mut Vec<u32>) {
            use lipe_find_parser::ast::{Action, Expression as E, Operator, Test};
            match e {
                E::Operator(o) => match o.as_ref() {
                    Operator::And(a, b) => { out.push(1); tags(a, out); tags(b, out); }
                    Operator::Or(a, b) => { out.push(2); tags(a, out); tags(b, out); }
                    Operator::List(a, b) => { out.push(3); tags(a, out); tags(b, out); }
                    Operator::Not(a) => { out.push(4); tags(a, out); }
                    Operator::Precedence(a) => { out.push(5); tags(a, out); }
                },
                E::Test(Test::True) => out.push(10),
                E::Test(Test::False) => out.push(11),
                E::Test(Test::Name(_)) => out.push(12),
                E::Action(Action::Print) => out.push(13),
                _ => out.push(19),
            }
        }
        let mut sizes = ladder(65, opts.num("size", 5000) as usize);
        if opts.get("few").is_some() { sizes.retain(|d| [100, 300, 511, 512, 513, 1025, 2049, 4097].contains(d) || numdict_new().contains(d)); }
        for &n in &sizes {
            for (k, ops) in [vec!["-o"], vec!["-a"], vec![""], vec![","], vec!["-or", "-o"], vec!["-and", "", "-a"], vec!["-o", "", ",", "-a"]].iter().enumerate() {
                let mut words: Vec<String> = vec![];
                let mut toks: Vec<u32> = vec![];   // the same sentence as token kinds (what the lexer of the specification would give)
                for i in 0..n {
                    match (i + k) % 4 {
                        0 => { words.push("-true".to_string()); toks.push(10); }
                        1 => { words.push(format!("-name p{}", i % 7)); toks.push(12); }
                        2 => { words.push("-false".to_string()); toks.push(11); }
                        _ => if i % 8 == 3 { words.push("! -true".to_string()); toks.push(4); toks.push(10); } else { words.push("-print".to_string()); toks.push(13); }
                    }
                    if i + 1 < n {
                        let o = ops[(i * 7 + i / 3) % ops.len()];
                        if !o.is_empty() { words.push(o.to_string()); toks.push(match o { "-o" | "-or" => 2, "," => 3, _ => 1 }); }
                    }
                }
                let input = words.join(" ");
                let obs = run_parse(&input);
                match &obs {
                    ParseOut::Ok(_, t) => { let mut pre = vec![]; tags(t, &mut pre); emit(&mut out, &json!({"i": cps(&input), "toks": toks, "st": "ok", "pre": pre, "n": n})); }
                    ParseOut::Err(_) => emit(&mut out, &json!({"i": cps(&input), "toks": toks, "st": "err", "pre": [], "n": n})),
                    ParseOut::Panic(_) => emit(&mut out, &json!({"i": cps(&input), "toks": toks, "st": "panic", "pre": [], "n": n})),
                }
            }
        }
        return 0;
    }
    for k in 0..count {
        let m = if mode == "mixed" { ["grammar", "soup", "mutate", "layout", "options"][(k % 5) as usize] } else { mode.as_str() };
        let input = match m {
            "grammar" => { let d = 1 + rng.below(8); rand_expr_text(&mut rng, d, false) }
            // C01: operators over three primaries only, so that a rejection or a wrong tree can
            // only come from the operator grammar
            "c01" => {
                if k % 2 == 0 { let d = 1 + rng.below(8); rand_expr3_text(&mut rng, d) }
                else { let n = 7 + rng.below(34); rand_word_soup3(&mut rng, n) }
            }
            "soup" => { let n = 7 + rng.below(34); rand_word_soup(&mut rng, n) }
            "mutate" => { let d = 1 + rng.below(3); let base = rand_expr_text(&mut rng, d, false); mutate(&mut rng, &base) }
            "layout" => { let d = 1 + rng.below(5);
                          let e = match rng.below(6) { 0 => String::new(), _ => rand_expr_text(&mut rng, d, true) };
                          let nopt = if e.is_empty() { 1 + rng.below(3) } else if rng.chance(1, 3) { 1 + rng.below(2) } else { 0 };
                          let mut words: Vec<String> = (0..nopt).map(|_| ["-depth", "-threads 4", "-threads 16"][rng.below(3)].to_string()).collect();
                          if !e.is_empty() { words.push(e); }
                          let sep = BLANKS[rng.below(BLANKS.len())];
                          format!("{}{}{}", ["", " ", "\t", "\n"][rng.below(4)], words.join(sep), ["", " ", "\r\n", "\t", "  "][rng.below(5)]) }
            "options" => {
                let d = 1 + rng.below(3);
                let mut words: Vec<String> = vec![];
                let lead = rng.below(3);
                for _ in 0..lead { words.push(rand_option(&mut rng)); }
                words.push(rand_expr_text(&mut rng, d, false));
                if rng.chance(1, 6) {
                    // a long expression (more than 64 tokens) with an option near its end
                    for k in 0..(35 + rng.below(30)) { words.push(format!("-name a{} -o", k)); }
                    words.push("-true".to_string());
                }
                if rng.chance(1, 2) { words.push(rand_option(&mut rng)); }
                if rng.chance(1, 3) { words.push(rand_primary(&mut rng)); }
                if rng.chance(1, 5) {
                    // MANY misplaced options (5..12), interleaved with operators, groups and negations
                    let n = 5 + rng.below(8);
                    for k in 0..n {
                        words.push(rand_option(&mut rng));
                        if k + 1 < n { words.push(["", "-o", "-a", ",", "-o -name x", "! -false"][rng.below(6)].to_string()); }
                    }
                    words.retain(|w| !w.is_empty());
                }
                let mut s = words.join(" ");
                if rng.chance(1, 6) {
                    // an option glued to the operator or parenthesis in front of it / behind it: whatever such a spelling
                    // means, no option may reach the returned tree and nothing may panic
                    let o = rand_option(&mut rng);
                    s = match rng.below(6) { 0 => format!("{} ,{}", s, o), 1 => format!("( {} ){} -print", s, o), 2 => format!("{} -o ({} )", s, o),
                                             3 => format!("{} !{}", s, o), 4 => format!("( {} {}),", s, o), _ => format!("{},{}", o, s) };
                }
                s
            }
            // one primary, alone or in a simple context, sometimes with a mutated argument
            "vocab" => {
                let p = rand_primary(&mut rng);
                let p = if rng.chance(1, 3) { mutate(&mut rng, &p) } else { p };
                match rng.below(5) { 0 => format!("-true {}", p), 1 => format!("{} -o -false", p), 2 => format!("( {} )", p), 3 => format!("! {}", p), _ => p }
            }
            "numbers" => rand_numeric_primary(&mut rng),
            "perm" => { let p = rand_perm(&mut rng); format!("-perm {}", p) }
            "format" => {
                let f = rand_format(&mut rng);
                let f = if rng.chance(1, 3) { mutate(&mut rng, &f) } else { f };
                if f.contains('\'') || f.is_empty() { format!("-printf \"{}\"", f.replace('"', "")) } else { format!("-printf '{}'", f) }
            }
            "errors" => {
                // a valid expression with one word replaced by junk or truncated after a keyword
                let d = 1 + rng.below(3);
                let base = rand_expr_text(&mut rng, d, false);
                let words: Vec<&str> = base.split(' ').collect();
                let k = rng.below(words.len());
                match rng.below(3) {
                    0 => words[..=k].join(" "),
                    1 => { let mut w: Vec<String> = words.iter().map(|s| s.to_string()).collect(); w[k] = ["x", "%", "=5", "foo", "-nosuch", "k1"][rng.below(6)].to_string(); w.join(" ") }
                    _ => { let mut w: Vec<String> = words.iter().map(|s| s.to_string()).collect(); w.insert(k, ["foo", "-bar", "+1"][rng.below(3)].to_string()); w.join(" ") }
                }
            }
            _ => rand_primary(&mut rng),
        };
        let obs = run_parse(&input);
        emit(&mut out, &json!({"i": cps(&input), "obs": parse_out_json(&obs)}));
        // a RELATED input right after (the same text with the blanks inside a quoted argument changed, a
        // letter in another case, a quote style swapped): defects that remember the previous call
        if rng.chance(1, 5) {
            let rel = match rng.below(4) {
                0 => input.replace("' ", "'  ").replace(" '", "  '"),
                1 => { let q = format!("{} -name 'a b'", input); let r = format!("{} -name 'a  b'", input); let o1 = run_parse(&q); emit(&mut out, &json!({"i": cps(&q), "obs": parse_out_json(&o1)})); r }
                2 => input.replacen('\'', "\"", 2),
                _ => input.replacen(' ', "\t", 1),
            };
            let o2 = run_parse(&rel);
            emit(&mut out, &json!({"i": cps(&rel), "obs": parse_out_json(&o2)}));
        }
    }
    0
}

fn profile(opts: &Opts) -> TreeProfile {
    TreeProfile {
        unsupported: opts.get("unsupported").is_some(),
        exotic: opts.get("exotic").is_some(),
        hostile_strings: opts.get("hostile").is_some(),
        no_direct: opts.get("no-direct").is_some(),
        kind: match opts.get("profile") { Some("c09") => "c09".into(), Some("actions") => "actions".into(), Some("numeric") => "numeric".into(), _ => String::new() },
    }
}

fn paths_of(opts: &Opts) -> Vec<String> {
    match opts.get("paths") {
        None => vec!["/".to_string()],
        Some("hostile") => vec!["/".into(), "/dev/mdt0".into(), "/mnt/a b".into(), "q\"x".into(), "q\\\"x".into(), "b\\s".into(), "b\\\\s".into(),
                                "trail\\".into(), "c\u{1}d".into(), "c\\x01d".into(), "é~;(\u{2028}".into(), "/dev/mdt1".into(), "/dev/mdt2".into(),
                                "/".into(), "/dev/mdt0".into(), "q\"x".into(),
                                // names that EXIST in the working directory of the recorder as symbolic links, a directory, a file
                                "lnk".into(), "./lnk".into(), "d/lnk".into(), "mdt0".into(), "dirlnk".into(), "dangling".into(), "out".into(), "lnk".into()],
        Some(p) => p.split(',').map(|s| s.to_string()).collect(),
    }
}

/// record-compile --count N --seed S --size K [--unsupported] [--exotic] [--hostile]
/// Compile an expression with a time test, then let the clock move on: anything the library keeps from
/// its first compilation (a cached "now") is then stale for everything recorded afterwards.
fn warm_up_and_tick() {
    if let ParseOut::Ok(o, t) = run_parse("-mmin 1 -o -atime +1") { let _ = run_compile(&t, &o, &["/".to_string()]); }
    // ... and a compilation that FAILS after it has handled a time test (what it leaves behind is stale too)
    if let ParseOut::Ok(o, t) = run_parse("-type f -mmin -90 -ls") { let _ = run_compile(&t, &o, &["/".to_string()]); }
    std::thread::sleep(std::time::Duration::from_millis(1100));
}

pub fn record_compile(opts: &Opts) -> i32 {
    if opts.get("no-warmup").is_none() { warm_up_and_tick(); }
    let seed = opts.num("seed", 1);
    let count = opts.num("count", 100);
    let size = opts.num("size", 6) as usize;
    let p = profile(opts);
    let paths = paths_of(opts);
    let mut rng = Rng(seed ^ 0x5eed_0002);
    let out = std::io::stdout();
    let mut out = out.lock();
    if opts.get("profile") == Some("spine") {
        let hi = opts.num("size", 240) as usize;
        let mut depths = ladder(30, hi);
        if opts.get("few").is_some() { depths.retain(|d| [40, 41, 48, 49, 64, 65, 128, 129, 200, 240].contains(d) || numdict_new().contains(d)); }
        for (shape, d, t) in spine_trees(&depths, false) {
            let o = lipe_find_parser::RunOptions::default();
            let c = run_compile(&t, &o, &paths);
            emit(&mut out, &json!({"t": expr_to_json(&t), "o": opts_to_json(&o), "c": c, "shape": shape, "depth": d}));
        }
        return 0;
    }
    if opts.get("profile") == Some("spine16") {
        let mut depths = ladder(30, opts.num("size", 240) as usize);
        if opts.get("few").is_some() { depths.retain(|d| [49, 65, 200].contains(d) || numdict_new().contains(d)); }
        if opts.get("mid").is_some() { depths.retain(|d| [40, 41, 48, 49, 64, 65, 100, 128, 129, 200, 240].contains(d) || numdict_new().contains(d)); }
        for (shape, d, t) in spine16(&depths) {
            let o = lipe_find_parser::RunOptions::default();
            let c = run_compile(&t, &o, &paths);
            emit(&mut out, &json!({"t": expr_to_json(&t), "o": opts_to_json(&o), "c": c, "shape": shape, "depth": d}));
        }
        return 0;
    }
    if opts.get("profile") == Some("words") {
        for t in word_programs() {
            let o = lipe_find_parser::RunOptions::default();
            let c = run_compile(&t, &o, &paths);
            emit(&mut out, &json!({"t": expr_to_json(&t), "o": opts_to_json(&o), "c": c}));
        }
        return 0;
    }
    if opts.get("profile") == Some("longfmt") {
        let mut sizes = ladder(8, opts.num("size", 300) as usize);
        if opts.get("few").is_some() { sizes.retain(|d| [20, 41, 65, 129].contains(d) || numdict_new().contains(d)); }
        if opts.get("mid").is_some() { sizes.retain(|d| [20, 40, 41, 64, 65, 100, 128, 129, 256, 257, 300].contains(d) || numdict_new().contains(d)); }
        for (shape, d, t) in long_format_programs(&sizes) {
            let o = lipe_find_parser::RunOptions::default();
            let c = run_compile(&t, &o, &paths);
            emit(&mut out, &json!({"t": expr_to_json(&t), "o": opts_to_json(&o), "c": c, "shape": shape, "depth": d}));
        }
        return 0;
    }
    if opts.get("profile") == Some("affix") {
        for t in affix_programs() {
            let o = lipe_find_parser::RunOptions::default();
            let c = run_compile(&t, &o, &paths);
            emit(&mut out, &json!({"t": expr_to_json(&t), "o": opts_to_json(&o), "c": c}));
        }
        return 0;
    }
    for k in 0..count {
        if opts.get("no-warmup").is_none() && (k == 0 || k == 37 || k == 113) {
            // a compilation that fails AFTER handling a time test, a tick of the clock, then time tests with every unit:
            // whatever the failed call left behind would now be a second old
            if let ParseOut::Ok(o, t) = run_parse(["-type f -mmin -90 -ls", "-mtime 1 -user bob", "-amin +2 -o -ctime 3 -regex x"][(k % 3) as usize]) { let _ = run_compile(&t, &o, &paths); }
            std::thread::sleep(std::time::Duration::from_millis(1100));
            for probe in ["-mmin -5 -o -mtime +1 -o -amin 3", "-ctime -2s -o -cmin +7 -o -atime 1h"] {
                if let ParseOut::Ok(o, t) = run_parse(probe) {
                    let c = run_compile(&t, &o, &paths);
                    emit(&mut out, &json!({"t": expr_to_json(&t), "o": opts_to_json(&o), "c": c}));
                }
            }
        }
        let sz = 1 + rng.below(size);
        let t = if opts.get("profile") == Some("chain") { let n = if size >= 200 { size - rng.below(20) } else { 1 + size / 2 + rng.below(size / 2 + 1) }; rand_chain(&mut rng, n) } else { rand_tree(&mut rng, sz, &p) };
        let mut o = lipe_find_parser::RunOptions::default();
        if rng.chance(1, 3) || opts.get("threads").is_some() && rng.chance(3, 4) { o.threads = Some(rand_u32(&mut rng)); }
        if rng.chance(1, 4) { o.depth = true; }
        let c = run_compile(&t, &o, &paths);
        emit(&mut out, &json!({"t": expr_to_json(&t), "o": opts_to_json(&o), "c": c}));
    }
    0
}

/// compile-trees: trees printed by TLC on stdin ({"t": tree, "o": opts?, ...}) are built
/// through the public constructors, compiled, and logged with everything TLC sent.
pub fn compile_trees(opts: &Opts) -> i32 {
    if opts.get("warmup").is_some() { warm_up_and_tick(); }
    let paths = paths_of(opts);
    let stdin = std::io::stdin();
    let out = std::io::stdout();
    let mut out = out.lock();
    for line in stdin.lock().lines() {
        let line = match line { Ok(l) => l, Err(_) => continue };
        let js = if line.starts_with('{') { line.clone() } else { match tlc_unquote(&line) { Some(j) => j, None => { if line.starts_with("Error") || line.contains("xception") { eprintln!("TLC {}", line); } continue; } } };
        let mut v: Value = match serde_json::from_str(&js) { Ok(v) => v, Err(e) => { eprintln!("BADJSON {}", e); continue; } };
        let t = match v.get("t").and_then(json_to_expr) { Some(t) => t, None => { eprintln!("BADTREE {}", js); continue; } };
        let o = v.get("o").and_then(json_to_opts).unwrap_or_default();
        let own_path: Option<Vec<String>> = v.get("path").and_then(from_cps).map(|p| vec![p]);
        // with a text "i": the REAL parser reads the text and its result is compiled, while "t" stays the tree
        // the specification gives for that text -- the program is then judged against what the text means
        let c = match v.get("i").and_then(from_cps) {
            Some(input) => match run_parse(&input) {
                ParseOut::Ok(po, pt) => run_compile(&pt, &po, own_path.as_ref().unwrap_or(&paths)),
                ParseOut::Err(m) => json!({"st":"err","msg":cps(&m),"at":"parse","t0":digits_str("0"),"t1":digits_str("0")}),
                ParseOut::Panic(m) => json!({"st":"panic","msg":cps(&m),"at":"parse","t0":digits_str("0"),"t1":digits_str("0")}),
            },
            None => run_compile(&t, &o, own_path.as_ref().unwrap_or(&paths)),
        };
        v["o"] = opts_to_json(&o);
        v["c"] = c;
        // C04: the same construct carrying a benign marker, for the skeleton comparison
        if let Some(t0) = v.get("t0").and_then(json_to_expr) {
            let p0: Vec<String> = v.get("path0").and_then(from_cps).map(|p| vec![p]).unwrap_or_else(|| paths.clone());
            v["c0"] = run_compile(&t0, &o, &p0);
        }
        emit(&mut out, &v);
    }
    0
}

/// record-api: histories of parse / compile / render / io_map calls (C15, C20, C03, C17).
pub fn record_api(opts: &Opts) -> i32 {
    let seed = opts.num("seed", 1);
    let count = opts.num("count", 100);
    let mut rng = Rng(seed ^ 0x5eed_0003);
    let proc_id = opts.num("proc", 0);
    let out = std::io::stdout();
    let mut out = out.lock();
    let paths = paths_of(opts);
    // a fixed, seed-determined list of expressions, each visited several times with
    // unrelated compilations in between
    let mut exprs: Vec<String> = vec![];
    for k in 0..count {
        let d = 2 + rng.below(4);
        // biased to many matchers / printers so that hash-table iteration order would show
        if k % 5 == 2 {
            // two destinations / patterns that are different strings but "the same" under some normalisation
            const PAIRS: &[(&str, &str)] = &[("out", "./out"), ("list", "list/"), ("d/x", "d//x"), ("d/x", "d/./x"), ("../o", ".o"), ("Out", "out"), ("a b", "a  b")];
            let (a, b) = PAIRS[(k as usize / 5) % PAIRS.len()];
            let kind = ["-fprint", "-fprint0"][(k as usize / 35) % 2];
            exprs.push(format!("-name a {} '{}' -o -name b {} '{}' -o -iname '{}' -o -name '{}/i'", kind, a, kind, b, a, a));
        } else if k % 11 == 5 {
            // a time test in front of a construct the target refuses, then (next visit) time tests alone
            exprs.push(["-mmin -5 -user root", "-atime +3 -nouser", "-ctime 2 -o -regex x"][rng.below(3)].to_string());
            exprs.push("-mmin -5 -o -amin +2".to_string());
        } else if k % 7 == 3 {
            // user text that looks like a placeholder a renderer might substitute, or that holds the delimiters of
            // the program text around the slot a renderer fills
            const W: &[&str] = &["{mdt}", "core\"", "{}", "\"\"", "%s", "x\"\"y", "{path}", "a\\", "$mdt", "\\\"", "@MDT@", "(lipe-scan", "__MDT__",
                                 "\"/dev/mdt0\"", "{0}", "/dev/mdt0", "~a", "MDT"];
            let q = |v: String| if v.contains('"') || v.contains('(') { format!("'{}'", v) } else { v };
            for j in 0..5usize {
                let w = W[((k as usize / 7) * 5 + j) % W.len()];
                exprs.push(match (j + rng.below(2)) % 5 {
                    0 => format!("-name {}", q(w.to_string())),
                    1 => format!("-name {} -print", q(format!("backup-{}.img", w))),
                    2 => format!("-type f -fprint {}", q(format!("/tmp/{}.list", w))),
                    3 => format!("-printf 'x{}y\\n' -o -pool {}", w.replace('\\', "").replace('"', "").replace('%', ""), q(w.to_string())),
                    // as the LAST characters of a pattern in front of everything else, with a time test behind
                    _ => format!("-name {} -o -mmin -3", q(w.to_string())),
                });
            }
        } else if k == 6 {
            // collections inside ONE argument with repeated members (a set-like container would reorder them)
            for e in ["-type f,d,l,s,f", "-type d,f,d -o -type l,l,p,b", "-perm u+r,g+w,u+r,o+x", "-printf '%p %s %p %u %p\\n'",
                      "-name a -o -name b -o -name a -o -name c -o -name b", "-type s,p,l,d,f,c,b,s", "-type f,d,l,f,d,l,f,d,p,s"] { exprs.push(e.to_string()); }
        } else if k % 3 == 0 {
            let n = 4 + rng.below(10);
            let parts: Vec<String> = (0..n).map(|_| match rng.below(7) {
                0 => format!("-name n{}*", rng.below(6)), 1 => format!("-iname N{}", rng.below(6)), 2 => format!("-fprint f{}", rng.below(5)),
                3 => format!("-fprint0 f{}", rng.below(5)), 4 => format!("-fprintf f{} '%p\\n'", rng.below(5)), 5 => "-print0".to_string(),
                _ => format!("-mmin +{}", rng.below(100)) }).collect();
            exprs.push(parts.join(" -o "));
        } else {
            exprs.push(rand_expr_text(&mut rng, d, false));
        }
    }
    let mut order: Vec<usize> = vec![];
    for rep in 0..3 { for i in 0..exprs.len() { order.push((i * 7 + rep * 3) % exprs.len()); } }
    if proc_id == 0 && opts.get("no-failprobe").is_none() {
        // what a FAILED call leaves behind: a probe is compiled, then an input that is refused part-way
        // (after some of its resources, template text or open parentheses have been handled), then the probe
        // again -- every visit of the probe must give what its first visit gave
        const FAILS: &[&str] = &["-printf 'a %p %d\\n'", "-printf '%s:%p %Z'", "-fprintf out '%p %s %l\\n'", "-printf 'x\\c'", "-printf '%p\\c%s'",
            "-name x -fprint f1 -user root", "-iname Y -fprint0 f2 -o -regex r", "-fprint a -fprint b -fls c", "-mmin -3 -anewer x",
            "( -name a -o ( -name b", "( ( ( ( -true", "! ! ! (", "-size 99999999999999999999k", "-perm 99999", "-uid", "-printf '%'", "-type q", "-name 'a", "-true )"];
        const PROBES: &[&str] = &["-printf '%s %p\\n'", "-type f -printf \"%s %p\\n\"", "-fprintf out '%p\\n'", "-name y -fprint g",
            "( -name a -o -name b ) -name c -print0", "-mmin -1", "-perm -u+x -size +1k", "( ( -true ) ) -o ( -false )"];
        for (fi, f) in FAILS.iter().enumerate() { for (pi, p) in PROBES.iter().enumerate() {
            // every failure before the three probes that use the same machinery, and before one of the others in turn
            if !(pi == 0 || pi == 3 || pi == 4 || pi == fi % PROBES.len()) { continue; }
            let base = exprs.len();
            exprs.push(p.to_string()); exprs.push(f.to_string());
            order.push(base); order.push(base + 1); order.push(base);
        } }
    }
    let mut seq = 0u64;
    if proc_id == 0 && opts.get("no-failprobe").is_none() {
        // the SAME expression compiled twice in a row with the clock advancing in between and nothing else compiled
        // (a memo of "the last compiled expression" must not hand back a program with a stale second): time tests
        // under every operator
        for e in ["-mmin -5 -fprint recent.txt , -size +1M -print", "! -mtime +3 , -print", "( -amin 2 -o -name x ) -a -ctime -1"] {
            for rep in 0..2 {
                if let ParseOut::Ok(o, t) = run_parse(e) {
                    let c = run_compile(&t, &o, &paths);
                    seq += 1;
                    emit(&mut out, &json!({"ev":"compile","proc":proc_id,"seq":seq,"eid":777000 + e.len(),"i":cps(e),"t":expr_to_json(&t),"o":opts_to_json(&o),"c":c}));
                }
                if rep == 0 { std::thread::sleep(std::time::Duration::from_millis(1100)); }
            }
        }
    }
    // let the clock advance a few times during the history (right after failed compilations), so that
    // anything carried over from an earlier call shows against the [t0,t1] window of a later one
    let mut sleeps_left = opts.num("sleeps", 3);
    for idx in order {
        let input = &exprs[idx];
        let obs = run_parse(input);
        seq += 1;
        emit(&mut out, &json!({"ev":"parse","proc":proc_id,"seq":seq,"eid":idx,"i":cps(input),"obs":parse_out_json(&obs)}));
        if let ParseOut::Ok(o, t) = &obs {
            let c = run_compile(t, o, &paths);
            seq += 1;
            let failed = c["st"].as_str() != Some("ok");
            emit(&mut out, &json!({"ev":"compile","proc":proc_id,"seq":seq,"eid":idx,"i":cps(input),"t":expr_to_json(t),"o":opts_to_json(o),"c":c}));
            if failed && sleeps_left > 0 {
                sleeps_left -= 1;
                std::thread::sleep(std::time::Duration::from_millis(1100));
                // probe: right after a refused compilation and a tick of the clock, compile an expression
                // with time tests (always the same text: label 999999)
                let probe = "-mmin -1 -o -amin +1 -o -ctime 3";
                if let ParseOut::Ok(po, pt) = run_parse(probe) {
                    let pc = run_compile(&pt, &po, &paths);
                    seq += 1;
                    emit(&mut out, &json!({"ev":"compile","proc":proc_id,"seq":seq,"eid":999999,"i":cps(probe),"t":expr_to_json(&pt),"o":opts_to_json(&po),"c":pc}));
                }
            }
        }
    }
    if proc_id == 0 && opts.get("paths") == Some("hostile") {
        // one compiled expression rendered for LONG device paths with a multi-byte character at every offset around
        // the usual block sizes (a renderer that escapes in blocks of 64 bytes cuts the character at ONE alignment)
        let mut long_paths: Vec<String> = vec![];
        for (ch, offs) in [('\u{e8}', (56..72).chain(120..132).collect::<Vec<usize>>()), ('\u{65e5}', (60..68).collect()), ('\u{1f600}', (60..68).collect())] {
            for k in offs { long_paths.push(format!("/{}{}.img", "a".repeat(k.saturating_sub(1)), ch)); }
        }
        long_paths.push(format!("/srv/{}/mdt0", "d".repeat(300)));
        long_paths.push(long_paths[0].clone());
        let probe = "-name x -o -size +1k -print";
        if let ParseOut::Ok(po, pt) = run_parse(probe) {
            let pc = run_compile(&pt, &po, &long_paths);
            seq += 1;
            emit(&mut out, &json!({"ev":"compile","proc":proc_id,"seq":seq,"eid":888888,"i":cps(probe),"t":expr_to_json(&pt),"o":opts_to_json(&po),"c":pc}));
        }
    }
    0
}

/// compile-text: inputs {"i": code points} -> parse, compile, log (used by probes and replay)
pub fn compile_text(opts: &Opts) -> i32 {
    let paths = paths_of(opts);
    let path = opts.str("from", "/dev/stdin");
    let text = std::fs::read_to_string(path).unwrap_or_default();
    let out = std::io::stdout();
    let mut out = out.lock();
    for line in text.lines() {
        let v: Value = match serde_json::from_str(line) { Ok(v) => v, Err(_) => continue };
        if let Some(input) = v.get("i").and_then(from_cps) {
            let obs = run_parse(&input);
            match &obs {
                ParseOut::Ok(o, t) => {
                    let c = run_compile(t, o, &paths);
                    emit(&mut out, &json!({"i": cps(&input), "t": expr_to_json(t), "o": opts_to_json(o), "c": c}));
                }
                _ => emit(&mut out, &json!({"i": cps(&input), "obs": parse_out_json(&obs)})),
            }
        }
    }
    0
}

/// every "kind" of character once in every place where user text travels: all of ASCII, the C1 controls,
/// and representatives of the other classes (no-break space, soft hyphen, case-folding oddities, combining
/// marks, separators, format characters, the ends of the 2-, 3- and 4-byte ranges, private use, non-characters)
pub fn codepoint_sweep() -> Vec<String> {
    let mut cps: Vec<u32> = (1u32..=0x9f).collect();
    cps.extend([0xa0, 0xad, 0xb5, 0xdf, 0xff, 0x100, 0x130, 0x131, 0x17f, 0x300, 0x345, 0x7ff, 0x800, 0x1e9e, 0x200b, 0x200d, 0x2028, 0x2029,
                0x202e, 0x2060, 0x212a, 0x3000, 0xd7ff, 0xe000, 0xfb01, 0xfe0f, 0xfeff, 0xfffd, 0xfffe, 0xffff, 0x10000, 0x1d11e, 0x1f600, 0xe0001, 0x10ffff]);
    let mut v = vec![];
    for cp in cps {
        let c = match char::from_u32(cp) { Some(c) => c, None => continue };
        v.push(format!("-name a{}b", c));
        v.push(format!("-iname {}", c));
        if c != '\'' { v.push(format!("-path '*{}*' -print", c)); v.push(format!("-printf 'a{}b\\n'", c)); v.push(format!("-fprintf f{} '%p{}'", c, c)); }
        if c != '"' { v.push(format!("-ipath \"{}{}\"", c, c)); v.push(format!("-xattr-match \"n{}\" \"v{}\"", c, c)); }
        v.push(format!("-pool a{}", c));
        v.push(format!("-xattr {}x -fprint o{}", c, c));
        v.push(format!("-uid {}1", c));
        v.push(format!("-true {}", c));
        v.push(format!("-printf '%{{xattr:a{}}}\\n'", c));
    }
    v
}

/// digit runs of every length up to 24 (and a few longer ones) in every numeric place, with and without unit:
/// conversions that are exact for the usual widths and overflow, wrap or panic beyond
pub fn digit_run_sweep() -> Vec<String> {
    let mut v = vec![];
    let lens: Vec<usize> = (1..=24).chain([31, 32, 33, 40, 64, 65, 100, 300]).collect();
    for kw in ["-perm ", "-perm -", "-perm /", "-uid ", "-gid +", "-inum ", "-links -", "-size ", "-size +", "-mtime ", "-amin -", "-threads ", "-stripe-count ",
               "-mirror-count +", "-maxdepth ", "-printf '\\", "-printf '%", "-type "] {
        for d in ['1', '3', '7', '9', '0'] {
            for n in &lens {
                let run: String = std::iter::repeat(d).take(*n).collect();
                let close = if kw.contains('\'') { "'" } else { "" };
                v.push(format!("{}{}{}", kw, run, close));
                if kw.starts_with("-size") { for u in ["c", "k", "T"] { v.push(format!("{}{}{}", kw, run, u)); } }
                if kw.starts_with("-mtime") || kw.starts_with("-amin") { v.push(format!("{}{}d", kw, run)); }
            }
        }
    }
    v
}

/// corpus for C03 / C17: valid inputs, every prefix, single-character mutations, deep nesting,
/// long inputs, numeric boundaries
/// LONG words of two-, three- and four-byte characters at every alignment (0..3 leading ASCII characters), where
/// the library echoes a word back (unknown word, bad argument) or stores it (patterns, file names)
pub fn wide_word_sweep() -> Vec<String> {
    let mut v = vec![];
    for ch in ['\u{e9}', '\u{65e5}', '\u{1f600}'] {
        for pad in 0..4usize {
            for n in [14usize, 22, 27, 33, 40, 64, 90] {
                let w: String = "x".repeat(pad) + &ch.to_string().repeat(n);
                for f in [format!("{}", w), format!("/{}", w), format!("-uid {}", w), format!("-name a -o -size {}", w), format!("-perm {}", w), format!("-type {}", w),
                          format!("-printf '%{}'", w), format!("-name {} -fprint {}", w, w), format!("-threads {}", w), format!("-true {} -print", w)] { v.push(f); }
            }
        }
    }
    v
}

pub fn total_corpus(rng: &mut Rng, count: usize) -> Vec<String> {
    let mut v: Vec<String> = codepoint_sweep();
    v.extend(digit_run_sweep());
    v.extend(wide_word_sweep());
    // NESTING at the stated bound (64) and below it, every level using several operators before it opens the next
    // group; and the plain shapes
    for n in [8usize, 16, 31, 32, 33, 48, 60, 61, 62, 63, 64] {
        for lead in ["-empty , -readable -o -writable ( ", "-true -o -false , ! ( ", "-name a -name b -o ( ", "! -true , -print -o ( ", "( ", "! ( ", "-true , ( ", "-false -o ( ",
                     "-name a -a ( "] {
            v.push(format!("{}-print{}", lead.repeat(n), " )".repeat(n)));
            v.push(format!("{}-print{} -o -name z", lead.repeat(n), " )".repeat(n)));
        }
        v.push(format!("{}-true", "! ".repeat(n)));
    }
    // numbers taken from the clock: the current second, minute, hour and day since the epoch (and neighbours)
    // (the orchestrator fixes the instant once per check, so that two recorders -- the debug and the release build --
    // are given the same corpus)
    let now = std::env::var("FPVERIF_NOW").ok().and_then(|v| v.parse::<u64>().ok())
        .unwrap_or_else(|| std::time::SystemTime::now().duration_since(std::time::UNIX_EPOCH).map(|d| d.as_secs()).unwrap_or(0));
    for (unit, div) in [("s", 1u64), ("m", 60), ("h", 3600), ("d", 86400), ("", 86400), ("", 60)] {
        for d in [0i64, -1, 1] {
            // (a count of SECONDS equal to the present second would be taken for the embedded compile time by the
            // checks that normalise it; those stay an hour away -- the C07 clock stage has the exact ones)
            let n = if div == 1 { now as i64 - 3600 + d } else { (now / div) as i64 + d };
            for kw in ["-mtime", "-atime", "-ctime", "-mmin", "-amin", "-cmin"] { for sg in ["", "+", "-"] { v.push(format!("{} {}{}{}", kw, sg, n, unit)); } }
            if div != 1 { v.push(format!("-uid {}", n)); v.push(format!("-size {}c", n)); v.push(format!("-links +{}", n)); }
        }
    }
    let mut k = 0usize;
    while v.len() < count {
        k += 1;
        match k % 8 {
            0 => { let d = 1 + rng.below(6); let fancy = rng.chance(1, 3); v.push(rand_expr_text(rng, d, fancy)); }
            1 => {
                let d = 1 + rng.below(2);
                let base = rand_expr_text(rng, d, false);
                let chars: Vec<char> = base.chars().collect();
                for n in 0..=chars.len().min(60) { v.push(chars[..n].iter().collect()); }
            }
            2 | 3 => { let d = 1 + rng.below(3); let base = rand_expr_text(rng, d, false); for _ in 0..8 { v.push(mutate(rng, &base)); } }
            4 => {
                let n = 1 + rng.below(64);
                match rng.below(4) {
                    3 => {
                        // every level uses several operators before it opens the next group
                        let lead = ["-empty , -readable -o -writable ( ", "-true -o -false , ! ( ", "-name a -name b -o ( ", "! -true , -print -o ( "][rng.below(4)];
                        v.push(format!("{}-print{}", lead.repeat(n), " )".repeat(n)));
                    }
                    0 => v.push(format!("{}-true{}", "( ".repeat(n), " )".repeat(n))),
                    1 => v.push(format!("{}-true", "! ".repeat(n))),
                    _ => v.push(format!("{}-print{}", "(".repeat(n), ")".repeat(n - rng.below(2)))),
                }
            }
            5 if rng.chance(1, 6) => {
                // many distinct resources: identifier counters beyond one byte (a name pattern takes two
                // identifiers, a destination one); the nesting depth of the parse tree stays below the 255
                // levels the JSON reader on the TLC side accepts
                let names = 100 + rng.below(30);
                let files = 60 + rng.below(40);
                let tail = ["-print0", "-fprint out", "-print", "-fprintf f '%p'"][rng.below(4)];
                let mut words: Vec<String> = vec![format!("( {} )", (0..names).map(|k| format!("-name n{}", k)).collect::<Vec<_>>().join(" -o "))];
                if rng.chance(2, 3) { words.extend((0..files).map(|k| format!("-fprint f{}", k))); }
                words.push(tail.to_string());
                v.push(words.join(" "));
            }
            5 if rng.chance(1, 3) => {
                // long FLAT sentences: hundreds of negations / groups / operators without deep nesting, and a
                // scan-wide option far behind (token index beyond 64)
                let n = 65 + rng.below(400);
                let mut words: Vec<String> = vec![];
                for k in 0..n {
                    let prim = ["-true", "-name x", "-print", "-false"][rng.below(4)];
                    let neg = if rng.chance(2, 3) { "! " } else { "" };
                    let grp = rng.chance(1, 8);
                    words.push(if grp { format!("( {}{} )", neg, prim) } else { format!("{}{}", neg, prim) });
                    if k + 1 < n { words.push(["-o", "-a", ",", ""][rng.below(4)].to_string()); }
                }
                if rng.chance(1, 2) { let at = words.len() - rng.below(6); words.insert(at.min(words.len()), ["-depth", "-threads 7"][rng.below(2)].to_string()); }
                let mut s = words.into_iter().filter(|w| !w.is_empty()).collect::<Vec<_>>().join(" ");
                if s.len() > 4096 { s.truncate(4096); while !s.ends_with(' ') && !s.is_empty() { s.pop(); } s.push_str("-true"); }
                v.push(s);
            }
            5 => {
                // long inputs up to 4 KiB
                let mut s = String::new();
                while s.len() < 3000 + rng.below(1000) { s.push_str(&rand_primary(rng)); s.push_str([" ", " -o ", " , ", " -a "][rng.below(4)]); }
                s.push_str("-print");
                s.truncate(4096);
                v.push(s);
            }
            6 if rng.chance(1, 5) => {
                // the same file as destination of actions of different kinds / twice the same / related spellings
                let f = rand_word(rng);
                let k1 = ["-fprint", "-fprint0", "-fprintf"][rng.below(3)];
                let k2 = ["-fprint", "-fprint0", "-fprintf"][rng.below(3)];
                let a = |k: &str, f: &str| if k == "-fprintf" { format!("{} {} '%p\\n'", k, f) } else { format!("{} {}", k, f) };
                let g = if rng.chance(1, 2) { f.clone() } else { rand_word(rng) };
                v.push(format!("{} {} {}", a(k1, &f), ["", "-o", ",", "-name x -o"][rng.below(4)], a(k2, &g)));
            }
            6 => {
                if rng.chance(1, 2) { v.push(rand_numeric_primary(rng)); }
                else {
                    // long words of mixed 1..4-byte characters, as unknown word or as a bad argument
                    const CH: &[char] = &['a', 'é', '日', '𝄞', 'ß', 'x', '-', '本'];
                    let n = if rng.chance(1, 4) { 1 + rng.below(300) } else { 1 + rng.below(70) };
                    let w: String = (0..n).map(|_| CH[rng.below(CH.len())]).collect();
                    let pre = ["", "-", "-uid ", "-size ", "-type ", "-perm ", "-name x -o -", "-threads ", "-printf %", "-amin +"][rng.below(10)];
                    v.push(format!("{}{}{}", pre, ["", "a", "ab", "abc"][rng.below(4)], w));
                }
            }
            _ => { let p = rand_primary(rng); v.push(mutate(rng, &p)); }
        }
    }
    v.truncate(count);
    v
}

fn class(st: &str) -> &str { st }

/// record-total: parse -> compile -> render -> io_map -> Display, every step guarded; compact
/// outcome classes (or, with --full, the whole observation for the build comparison of C17)
pub fn record_total(opts: &Opts) -> i32 {
    let seed = opts.num("seed", 1);
    let count = opts.num("count", 1000) as usize;
    let full = opts.get("full").is_some();
    let mut rng = Rng(seed ^ 0x5eed_0004);
    let mut corpus = total_corpus(&mut rng, if opts.get("only").is_some() { count * 40 } else { count });
    if opts.get("only") == Some("flat") {
        // only the long flat sentences (C01: acceptance class of long inputs)
        corpus.retain(|s| s.len() > 300 && (s.contains("! -") || s.contains("( ")) && !s.contains("-fprint") && !s.contains("-uid") && !s.contains("n1 "));
        corpus.truncate(count);
    }
    let out = std::io::stdout();
    let mut out = out.lock();
    let paths = vec!["/".to_string()];
    for input in corpus {
        let obs = run_parse(&input);
        if full {
            match &obs {
                ParseOut::Ok(o, t) => {
                    let c = run_compile(t, o, &paths);
                    emit(&mut out, &json!({"i": cps(&input), "t": expr_to_json(t), "o": opts_to_json(o), "c": c}));
                }
                _ => emit(&mut out, &json!({"i": cps(&input), "obs": parse_out_json(&obs)})),
            }
            continue;
        }
        let (p, c, r, m) = match &obs {
            ParseOut::Ok(o, t) => {
                let cj = run_compile(t, o, &paths);
                let cst = cj["st"].as_str().unwrap_or("?").to_string();
                let (r, m) = if cst == "ok" {
                    (cj["renders"][0]["st"].as_str().unwrap_or("?").to_string(),
                     if cj["iomaps"][0].get("panic").is_some() { "panic".to_string() } else { "ok".to_string() })
                } else { ("none".into(), "none".into()) };
                ("ok".to_string(), cst, r, m)
            }
            ParseOut::Err(_) => ("err".to_string(), "none".into(), "none".into(), "none".into()),
            ParseOut::Panic(_) => ("panic".to_string(), "none".into(), "none".into(), "none".into()),
        };
        let _ = class;
        emit(&mut out, &json!({"i": cps(&input), "p": p, "c": c, "r": r, "m": m}));
    }
    0
}

/// record-tree: random trees through every public constructor (exotic shapes, hostile and dictionary
/// strings); logs what the tree helpers answer (C19); TLC judges with Ast.tla
pub fn record_tree(opts: &Opts) -> i32 {
    let seed = opts.num("seed", 1);
    let count = opts.num("count", 1000);
    let size = opts.num("size", 12) as usize;
    let mut rng = Rng(seed ^ 0x5eed_0005);
    let p = TreeProfile { unsupported: true, exotic: true, hostile_strings: true, no_direct: false, kind: String::new() };
    let out = std::io::stdout();
    let mut out = out.lock();
    {
        // BIG left-deep chains (hundreds to thousands of members), sent as a description and rebuilt by TLC
        use lipe_find_parser::ast::{Action, Expression as E, FormatElement, FormatField, Operator, Test};
        use std::rc::Rc;
        let mut sizes = ladder(256, opts.num("big", 5000) as usize);
        if opts.get("few").is_some() { sizes.retain(|d| [300, 513, 1025, 2049, 4097, 5000].contains(d) || numdict_new().contains(d)); }
        let fill = E::Test(Test::Name("x".into()));
        let specials: Vec<Option<E>> = vec![None, Some(E::Action(Action::Print)), Some(E::Action(Action::PrintNull)), Some(E::Action(Action::FilePrint("o".into()))),
            Some(E::Action(Action::PrintFormatted(vec![FormatElement::Field(FormatField::Name)]))), Some(E::Action(Action::Quit))];
        for &n in &sizes {
            for (si, sp) in specials.iter().enumerate() {
                for (pi, pos) in [1usize, n / 2, n].into_iter().enumerate() {
                    if sp.is_none() && pi > 0 { continue; }
                    let opname = ["or", "and", "list", "mix"][(si + pi) % 4];
                    let member = |i: usize| if i == pos { sp.clone().unwrap_or_else(|| fill.clone()) } else { fill.clone() };
                    let mut t = member(1);
                    for i in 2..=n {
                        let o = if opname == "mix" { ["or", "and", "list"][i % 3] } else { opname };
                        t = E::Operator(Rc::new(match o { "or" => Operator::Or(t, member(i)), "and" => Operator::And(t, member(i)), _ => Operator::List(t, member(i)) }));
                    }
                    let desc = json!({"n": n, "op": opname, "fill": expr_to_json(&fill), "pos": pos, "leaf": expr_to_json(&member(pos))});
                    // what compile() chooses (only for sizes the recursive compiler can take on this stack)
                    let mode = if n <= 1100 {
                        match guarded(&json!({"big": n}), || lipe_find_parser::compile(&t, &lipe_find_parser::RunOptions::default()).map(|c| c.io_map().is_some())) {
                            Ok(Ok(true)) => "framed", Ok(Ok(false)) => "plain", Ok(Err(_)) => "err", Err(_) => "panic" }
                    } else { "none" };
                    match guarded(&json!({"big": n}), || (t.action(), t.complex_frames())) {
                        Ok((a, f)) => emit(&mut out, &json!({"big": desc, "st": "ok", "action": a, "framed": f, "mode": mode})),
                        Err(m) => emit(&mut out, &json!({"big": desc, "st": "panic", "msg": cps(&m), "action": false, "framed": false, "mode": mode})),
                    }
                    // dropping a chain of thousands of Rc nodes recursively needs stack too: unlink it iteratively
                    let mut cur = t;
                    loop {
                        let next = match cur { E::Operator(rc) => match Rc::try_unwrap(rc) { Ok(Operator::Or(l, _)) | Ok(Operator::And(l, _)) | Ok(Operator::List(l, _)) => Some(l), _ => None }, _ => None };
                        match next { Some(l) => cur = l, None => break }
                    }
                }
            }
        }
    }
    for k in 0..count {
        let sz = 1 + rng.below(size);
        if k % 17 == 5 {
            // deep spines (right-nested, left-nested, chains of Not / Precedence) with ONE action at the bottom
            use lipe_find_parser::ast::{Action, Expression as E, Operator, Test};
            use std::rc::Rc;
            let depth = 20 + rng.below(90);
            let bottom = match rng.below(5) { 0 => E::Action(Action::Print), 1 => E::Action(Action::PrintNull), 2 => E::Action(Action::FilePrint("o".into())),
                                              3 => E::Test(Test::True), _ => E::Action(Action::Quit) };
            let mut t = bottom;
            let shape = rng.below(5);
            for _ in 0..depth {
                let leaf = E::Test(Test::True);
                t = E::Operator(Rc::new(match (shape, rng.below(3)) {
                    (0, 0) => Operator::And(leaf, t), (0, 1) => Operator::Or(leaf, t), (0, _) => Operator::List(leaf, t),
                    (1, 0) => Operator::And(t, leaf), (1, 1) => Operator::Or(t, leaf), (1, _) => Operator::List(t, leaf),
                    (2, _) => Operator::Not(t), (3, _) => Operator::Precedence(t),
                    (_, 0) => Operator::And(leaf, t), (_, 1) => Operator::Not(t), (_, _) => Operator::Or(t, leaf),
                }));
            }
            let tj = expr_to_json(&t);
            match guarded(&json!({"deep": depth}), || (t.action(), t.complex_frames())) {
                Ok((a, f)) => emit(&mut out, &json!({"t": tj, "st": "ok", "action": a, "framed": f})),
                Err(m) => emit(&mut out, &json!({"t": tj, "st": "panic", "msg": cps(&m), "action": false, "framed": false})),
            }
            continue;
        }
        let t = if k % 3 == 0 { rand_tree(&mut rng, sz, &TreeProfile { kind: "actions".into(), ..TreeProfile { unsupported: false, exotic: false, hostile_strings: false, no_direct: false, kind: String::new() } }) } else { rand_tree(&mut rng, sz, &p) };
        let tj = expr_to_json(&t);
        match guarded(&tj, || (t.action(), t.complex_frames())) {
            Ok((a, f)) => emit(&mut out, &json!({"t": tj, "st": "ok", "action": a, "framed": f})),
            Err(m) => emit(&mut out, &json!({"t": tj, "st": "panic", "msg": cps(&m), "action": false, "framed": false})),
        }
    }
    0
}
