//! fpverif: thin driver binding the TLA+ specification to lipe-find-parser.
//!   replay-*  : spec -> implementation (vectors printed by TLC are fed to the real API)
//!   record-*  : implementation -> spec (executions are logged as ndjson for TLC to validate)
mod gen;
mod proj;
mod replay;
mod record;
mod run;

fn main() {
    run::init();
    let args: Vec<String> = std::env::args().collect();
    if args.len() < 2 {
        eprintln!("usage: fpverif <command> [options]");
        std::process::exit(2);
    }
    let opts = Opts::parse(&args[2..]);
    let code = match args[1].as_str() {
        "replay-parse" => replay::replay_parse(&opts),
        "replay-tree" => replay::replay_tree(&opts),
        "record-parse" => record::record_parse(&opts),
        "record-compile" => record::record_compile(&opts),
        "record-api" => record::record_api(&opts),
        "record-total" => record::record_total(&opts),
        "record-tree" => record::record_tree(&opts),
        "compile-trees" => record::compile_trees(&opts),
        "compile-text" => record::compile_text(&opts),
        other => {
            eprintln!("unknown command {other}");
            2
        }
    };
    std::process::exit(code);
}

pub struct Opts(pub std::collections::HashMap<String, String>);
impl Opts {
    fn parse(args: &[String]) -> Opts {
        let mut m = std::collections::HashMap::new();
        let mut i = 0;
        while i < args.len() {
            if let Some(k) = args[i].strip_prefix("--") {
                if i + 1 < args.len() && !args[i + 1].starts_with("--") {
                    m.insert(k.to_string(), args[i + 1].clone());
                    i += 2;
                } else {
                    m.insert(k.to_string(), "1".to_string());
                    i += 1;
                }
            } else {
                i += 1;
            }
        }
        Opts(m)
    }
    pub fn get(&self, k: &str) -> Option<&str> {
        self.0.get(k).map(|s| s.as_str())
    }
    pub fn num(&self, k: &str, d: u64) -> u64 {
        self.get(k).and_then(|s| s.parse().ok()).unwrap_or(d)
    }
    pub fn str(&self, k: &str, d: &str) -> String {
        self.get(k).unwrap_or(d).to_string()
    }
}
