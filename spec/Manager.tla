------------------------------ MODULE Manager ------------------------------
(***************************************************************************)
(* The resource manager of the code generator as a state machine           *)
(* (manager.rs: LocalSchemeManager / DistributedSchemeManager).            *)
(* State  [mode, varIndex, defs, printers, matches, files, defaultPort]     *)
(*   defs      sequence of definitions [name, deps] in emission order      *)
(*   printers  key -> index;  key = <<dest, term>>, dest = <<>> for stdout  *)
(*   matches   <<pattern, ci>> -> index                                     *)
(*   files     file name -> [port, mutex]   (local mode only)              *)
(* Actions  MGetPrinter(term), MGetFilePrinter(file, term), MGetMatcher(p, *)
(* ci); each returns (in .ret) the name the policy body will reference.    *)
(* Requests(tree) is the pre-order walk the code generator makes.          *)
(***************************************************************************)
EXTENDS Ast

MName(kind, n) == <<kind, n>>
MInit(mode) ==
  IF mode = "local"
  THEN [mode |-> mode, varIndex |-> 0, defs |-> <<>>, printers |-> <<>>, matches |-> <<>>, files |-> <<>>,
        defaultPort |-> <<>>, ret |-> <<>>]
  ELSE [mode |-> mode, varIndex |-> 2,
        defs |-> << [name |-> MName("port", 0), deps |-> {}], [name |-> MName("mutex", 1), deps |-> {}],
                    [name |-> MName("frame", 2), deps |-> {MName("port", 0), MName("mutex", 1)}] >>,
        printers |-> <<>>, matches |-> <<>>, files |-> <<>>, defaultPort |-> <<0, 1>>, ret |-> <<>>]

\* association lists: << <<key, value>>, ... >>
ALookup(al, key) ==
  LET hits == {i \in 1..Len(al) : al[i][1] = key} IN IF hits = {} THEN <<>> ELSE <<al[CHOOSE i \in hits : TRUE][2]>>
AKeys(al) == {al[i][1] : i \in 1..Len(al)}
AVals(al) == {al[i][2] : i \in 1..Len(al)}

\* local mode: make sure the default port exists
MEnsureDefault(st) ==
  IF st.defaultPort # <<>> THEN st
  ELSE [st EXCEPT !.defs = st.defs \o << [name |-> MName("port", st.varIndex), deps |-> {}],
                                        [name |-> MName("mutex", st.varIndex + 1), deps |-> {}] >>,
                  !.defaultPort = <<st.varIndex, st.varIndex + 1>>,
                  !.varIndex = st.varIndex + 2]
MEnsureFile(st, file) ==
  IF ALookup(st.files, file) # <<>> THEN st
  ELSE [st EXCEPT !.defs = st.defs \o << [name |-> MName("port", st.varIndex), deps |-> {}],
                                        [name |-> MName("mutex", st.varIndex + 1), deps |-> {}] >>,
                  !.files = Append(st.files, <<file, <<st.varIndex, st.varIndex + 1>>>>),
                  !.varIndex = st.varIndex + 2]
\* register a printer for key on port pm = <<port, mutex>>
MRegister(st, key, pm) ==
  LET have == ALookup(st.printers, key) IN
  IF have # <<>> THEN [st EXCEPT !.ret = MName("print", have[1])]
  ELSE [st EXCEPT !.defs = Append(st.defs, [name |-> MName("print", st.varIndex),
                                            deps |-> IF st.mode = "local" THEN {MName("port", pm[1]), MName("mutex", pm[2])}
                                                     ELSE {MName("frame", 2)}]),
                  !.printers = Append(st.printers, <<key, st.varIndex>>),
                  !.ret = MName("print", st.varIndex),
                  !.varIndex = st.varIndex + 1]

MGetPrinter(st, term) ==
  IF st.mode = "local" THEN LET s2 == MEnsureDefault(st) IN MRegister(s2, <<<<>>, term>>, s2.defaultPort)
  ELSE MRegister(st, <<<<>>, term>>, st.defaultPort)
MGetFilePrinter(st, file, term) ==
  IF st.mode = "local" THEN LET s2 == MEnsureFile(st, file) IN MRegister(s2, <<file, term>>, ALookup(s2.files, file)[1])
  ELSE MRegister(st, <<file, term>>, st.defaultPort)
MGetMatcher(st, pat, ci) ==
  LET key == <<pat, ci>>  have == ALookup(st.matches, key) IN
  IF have # <<>> THEN [st EXCEPT !.ret = MName("match", have[1])]
  ELSE [st EXCEPT !.defs = Append(st.defs, [name |-> MName("match", st.varIndex + 1), deps |-> {}]),
                  !.matches = Append(st.matches, <<key, st.varIndex + 1>>),
                  !.ret = MName("match", st.varIndex + 1),
                  !.varIndex = st.varIndex + 2]

\* a request: [r |-> "printer", term] / [r |-> "fprinter", file, term] / [r |-> "matcher", pat, ci]
MStep(st, q) ==
  IF q.r = "printer" THEN MGetPrinter(st, q.term)
  ELSE IF q.r = "fprinter" THEN MGetFilePrinter(st, q.file, q.term)
  ELSE MGetMatcher(st, q.pat, q.ci)
RECURSIVE MRun(_, _, _)
MRun(st, qs, i) == IF i > Len(qs) THEN st ELSE MRun(MStep(st, qs[i]), qs, i + 1)

\* ---- invariants of the design ----
MDefNames(st) == [i \in 1..Len(st.defs) |-> st.defs[i].name]
MNamesUnique(st) == \A i, j \in 1..Len(st.defs) : i # j => st.defs[i].name # st.defs[j].name
MDefBeforeUse(st) == \A i \in 1..Len(st.defs) : \A d \in st.defs[i].deps : \E j \in 1..(i - 1) : st.defs[j].name = d
MInjective(al) == \A i, j \in 1..Len(al) : i # j => al[i][1] # al[j][1] /\ al[i][2] # al[j][2]
MSharing(st) == MInjective(st.printers) /\ MInjective(st.matches)
MCounterAbove(st) == \A i \in 1..Len(st.defs) : st.defs[i].name[2] < st.varIndex \/ (st.defs[i].name = MName("frame", 2) /\ st.varIndex >= 2)
MNumbersDistinctPerKind(st) ==
  \* a number may be shared by names of different kinds (frame:2 / print:2) but never within a kind
  \A i, j \in 1..Len(st.defs) : i # j /\ st.defs[i].name[1] = st.defs[j].name[1] => st.defs[i].name[2] # st.defs[j].name[2]
MRetBound(st) == st.ret = <<>> \/ \E i \in 1..Len(st.defs) : st.defs[i].name = st.ret
\* destination table = inverse of the printers table (framed mode)
MIoMap(st) == {<<st.printers[i][2], st.printers[i][1]>> : i \in 1..Len(st.printers)}
MIoMapInverse(st) == \A a, b \in MIoMap(st) : a[1] = b[1] => a = b

\* ---- the walk of the code generator ----
TermOf(k) == IF k \in {"print", "fprint"} THEN <<cLF>> ELSE IF k \in {"print0", "fprint0"} THEN <<0>> ELSE <<>>
RECURSIVE Requests(_)
Requests(t) ==
  IF IsBinary(t) THEN Requests(t.l) \o Requests(t.r)
  ELSE IF IsUnary(t) THEN Requests(t.e)
  ELSE IF t.k \in {"print", "print0", "printf"} THEN <<[r |-> "printer", term |-> TermOf(t.k)]>>
  ELSE IF t.k \in {"fprint", "fprint0", "fprintf"} THEN <<[r |-> "fprinter", file |-> t.s, term |-> TermOf(t.k)]>>
  ELSE IF t.k \in {"name", "path"} THEN <<[r |-> "matcher", pat |-> t.s, ci |-> FALSE]>>
  ELSE IF t.k \in {"iname", "ipath"} THEN <<[r |-> "matcher", pat |-> t.s, ci |-> TRUE]>>
  ELSE <<>>
ManagerFor(t) == MRun(MInit(IF NeedsFramed(t) THEN "dist" ELSE "local"), Requests(t), 1)
=============================================================================
