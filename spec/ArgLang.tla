------------------------------ MODULE ArgLang ------------------------------
(***************************************************************************)
(* Argument languages of the primaries (properties C05, C07, C08).         *)
(* Each Arg<Lang>(w) takes one complete argument WORD (code points, quotes *)
(* already removed) and returns                                            *)
(*   [st |-> "ok",  v |-> <record of node fields>]                          *)
(*   [st |-> "rej", fs |-> BOOLEAN]   fs: invalid from its first character  *)
(*   [st |-> "unspec"]                the properties are silent             *)
(* The word must be ENTIRELY in the language: no trailing or embedded junk. *)
(***************************************************************************)
EXTENDS Format

ArgOk(v)   == [st |-> "ok", v |-> v]
ArgRej(fs) == [st |-> "rej", fs |-> fs]
ArgUnspec  == [st |-> "unspec"]

(* ---- decimal numbers with a field range -------------------------------- *)
\* digits+ within [0, max]; leading zeros allowed
NumIn(w, max) == w # <<>> /\ AllIn(w, IsDigit) /\ BLe(BFromCp(w), max)

ArgUInt(w, max) ==
  IF w = <<>> THEN ArgRej(TRUE)
  ELSE IF ~IsDigit(w[1]) THEN ArgRej(TRUE)
  ELSE IF ~AllIn(w, IsDigit) THEN ArgRej(FALSE)
  ELSE IF BGt(BFromCp(w), max) THEN ArgRej(FALSE)
  ELSE ArgOk([n |-> BFromCp(w)])

(* ---- [+-]N comparisons -------------------------------------------------- *)
CmpOf(w) == IF w # <<>> /\ w[1] = cPLUS THEN "gt" ELSE IF w # <<>> /\ w[1] = cMINUS THEN "lt" ELSE "eq"
CmpBody(w) == IF w # <<>> /\ w[1] \in {cPLUS, cMINUS} THEN Tail(w) ELSE w
\* first character can start a comparison at all?
CmpStartOk(w) == w # <<>> /\ (IsDigit(w[1]) \/ w[1] \in {cPLUS, cMINUS})

ArgCmpUInt(w, max) ==
  IF ~CmpStartOk(w) THEN ArgRej(TRUE)
  ELSE LET b == CmpBody(w) IN
       IF b = <<>> \/ ~AllIn(b, IsDigit) \/ BGt(BFromCp(b), max) THEN ArgRej(FALSE)
       ELSE ArgOk([cmp |-> CmpOf(w), n |-> BFromCp(b)])

(* ---- sizes N[bcwkMGT] and times N[smhd] --------------------------------- *)
SizeUnits == Cp("bcwkMGT")
SizeUnitSet == {SizeUnits[i] : i \in 1..Len(SizeUnits)}
TimeUnits == Cp("smhd")
TimeUnitSet == {TimeUnits[i] : i \in 1..Len(TimeUnits)}

\* bytes per size unit, as BigNat
SizeMult(u) ==
  CASE u = "c" -> BOne
    [] u = "w" -> BFromInt(2)
    [] u = "b" -> BFromInt(512)
    [] u = "k" -> BPow2(10)
    [] u = "M" -> BPow2(20)
    [] u = "G" -> BPow2(30)
    [] u = "T" -> BPow2(40)
\* seconds per time unit (fits an int)
TimeSecs(u) == CASE u = "s" -> 1 [] u = "m" -> 60 [] u = "h" -> 3600 [] u = "d" -> 86400

\* body = digits+ unit? ; dflt = unit used when none is written
ArgCounted(w, unitSet, dflt) ==
  IF ~CmpStartOk(w) THEN ArgRej(TRUE)
  ELSE LET b == CmpBody(w)
           nd == RunLen(b, 1, Digits)
       IN IF nd = 0 THEN ArgRej(FALSE)
          ELSE LET digs == SubSeq(b, 1, nd)
                   rest == Drop(b, nd)
               IN IF BGt(BFromCp(digs), BMaxU64) THEN ArgRej(FALSE)
                  ELSE IF rest = <<>> THEN ArgOk([cmp |-> CmpOf(w), n |-> BFromCp(digs), u |-> dflt])
                  ELSE IF Len(rest) = 1 /\ rest[1] \in unitSet
                       THEN ArgOk([cmp |-> CmpOf(w), n |-> BFromCp(digs), u |-> ChrStr(rest[1])])
                  ELSE ArgRej(FALSE)

\* A size whose byte count (count * unit) exceeds the 64-bit field may be rejected at
\* parse time or at compile time (C07: "exact or rejected"); flag it for the caller.
SizeOverflows(v) == BGt(BMul(v.n, SizeMult(v.u)), BMaxU64)

ArgSize(w)  == ArgCounted(w, SizeUnitSet, "b")
ArgTimeM(w) == ArgCounted(w, TimeUnitSet, "m")
ArgTimeD(w) == ArgCounted(w, TimeUnitSet, "d")

(* ---- type lists ---------------------------------------------------------- *)
TypeLetters == Cp("bcdpfls")
TypeLetterSet == {TypeLetters[i] : i \in 1..Len(TypeLetters)}
\* letter (, letter)*
RECURSIVE TypeListR(_, _, _)
TypeListR(w, i, acc) ==
  IF i > Len(w) THEN ArgRej(FALSE)
  ELSE IF w[i] \notin TypeLetterSet THEN ArgRej(i = 1)
  ELSE IF i = Len(w) THEN ArgOk([ts |-> Append(acc, ChrStr(w[i]))])
  ELSE IF w[i + 1] = cCOMMA THEN TypeListR(w, i + 2, Append(acc, ChrStr(w[i])))
  ELSE ArgRej(FALSE)
ArgTypes(w) == IF w = <<>> THEN ArgRej(TRUE) ELSE TypeListR(w, 1, <<>>)

(* ---- permissions (C08) --------------------------------------------------- *)
\* twelve permission bits as sets of bit positions 0..11
BitsOf(n) == {k \in 0..11 : (n \div (2 ^ k)) % 2 = 1}
RECURSIVE IntOfR(_)
IntOfR(S) == IF S = {} THEN 0 ELSE LET k == CHOOSE k \in S : TRUE IN 2 ^ k + IntOfR(S \ {k})
IntOf(S) == IntOfR(S)

WhoMask(c) ==
  CASE c = 117 -> BitsOf(448)      \* u 0700
    [] c = 103 -> BitsOf(56)       \* g 0070
    [] c = 111 -> BitsOf(7)        \* o 0007
    [] c = 97  -> BitsOf(511)      \* a 0777
PermMask(c) ==
  CASE c = 114 -> BitsOf(292)      \* r 0444
    [] c = 119 -> BitsOf(146)      \* w 0222
    [] c = 120 -> BitsOf(73)       \* x 0111
WhoSet == {117, 103, 111, 97}
PermSet == {114, 119, 120}
OpSet == {cPLUS, cMINUS, cEQ}

\* chmod: apply one clause (who mask W, operator, permission mask P) to a mode
ChmodApply(mode, W, op, P) ==
  IF op = cPLUS THEN mode \cup (W \cap P)
  ELSE IF op = cMINUS THEN mode \ (W \cap P)
  ELSE (mode \ W) \cup (W \cap P)

UnionOver(s, F(_)) == UNION {F(s[i]) : i \in 1..Len(s)}

\* parse clauses starting at i with the mode accumulated so far
RECURSIVE PermClauses(_, _, _)
PermClauses(w, i, mode) ==
  LET nw == RunLen(w, i, WhoSet) IN
  IF nw = 0 THEN [st |-> "rej"]
  ELSE LET j == i + nw IN
    IF j > Len(w) \/ w[j] \notin OpSet THEN [st |-> "rej"]
    ELSE LET np == RunLen(w, j + 1, PermSet) IN
      IF np = 0 THEN [st |-> "rej"]
      ELSE LET W == UnionOver(SubSeq(w, i, j - 1), WhoMask)
               P == UnionOver(SubSeq(w, j + 1, j + np), PermMask)
               m2 == ChmodApply(mode, W, w[j], P)
               k == j + 1 + np
           IN IF k > Len(w) THEN [st |-> "ok", m |-> m2]
              ELSE IF w[k] = cCOMMA THEN PermClauses(w, k + 1, m2)
              ELSE [st |-> "rej"]

\* octal: three or more octal digits whose value fits the twelve bits
RECURSIVE OctValR(_, _)
OctValR(w, acc) == IF w = <<>> THEN acc ELSE OctValR(Tail(w), acc * 8 + (Head(w) - 48))
RECURSIVE StripZeros(_)
StripZeros(w) == IF w # <<>> /\ w[1] = c0 THEN StripZeros(Tail(w)) ELSE w

PermBody(b) ==
  IF b = <<>> THEN [st |-> "rej"]
  ELSE IF AllIn(b, IsOctal) THEN
     IF Len(b) < 3 THEN [st |-> "rej"]
     ELSE IF Len(StripZeros(b)) > 4 THEN [st |-> "rej"]
     ELSE [st |-> "ok", m |-> BitsOf(OctValR(StripZeros(b), 0))]
  ELSE PermClauses(b, 1, {})

ArgPerm(w) ==
  IF w = <<>> THEN ArgRej(TRUE)
  ELSE LET pre == IF w[1] = cSLASH THEN "any" ELSE IF w[1] = cMINUS THEN "all" ELSE "eq"
           b == IF pre = "eq" THEN w ELSE Tail(w)
           r == PermBody(b)
           firstOk == w[1] \in ({cSLASH, cMINUS} \cup Octals \cup WhoSet)
       IN IF r.st = "ok" THEN ArgOk([chk |-> pre, m |-> IntOf(r.m)])
          ELSE ArgRej(~firstOk)

(* ---- strings and format strings ------------------------------------------ *)
ArgStr(w)  == IF w = <<>> THEN ArgRej(TRUE) ELSE ArgOk([s |-> w])
ArgStr2(w) == IF w = <<>> THEN ArgRej(TRUE) ELSE ArgOk([s2 |-> w])
ArgFmt(w) ==
  IF w = <<>> THEN ArgRej(TRUE)
  ELSE LET r == FmtParse(w) IN
       IF r.st = "ok" THEN ArgOk([f |-> r.els])
       ELSE IF r.st = "unspec" THEN ArgUnspec
       \* invalid from its first character: the format opens with a '%' that no documented directive follows
       ELSE ArgRej(w[1] = cPCT /\ FmtDirective(w, 2).st = "rej")

\* dispatcher on the argument-language id used by the vocabulary table
ArgParse(lang, w) ==
  CASE lang = "str"    -> ArgStr(w)
    [] lang = "str2"   -> ArgStr2(w)
    [] lang = "fmt"    -> ArgFmt(w)
    [] lang = "perm"   -> ArgPerm(w)
    [] lang = "types"  -> ArgTypes(w)
    [] lang = "size"   -> ArgSize(w)
    [] lang = "timeM"  -> ArgTimeM(w)
    [] lang = "timeD"  -> ArgTimeD(w)
    [] lang = "cmp32"  -> ArgCmpUInt(w, BMaxU32)
    [] lang = "cmp64"  -> ArgCmpUInt(w, BMaxU64)
    [] lang = "u32"    -> ArgUInt(w, BMaxU32)

\* may the argument be written as a quoted word?  (C06: "when the value permits it")
LangQuotable(lang) == lang \in {"str", "str2", "fmt", "perm"}
=============================================================================
