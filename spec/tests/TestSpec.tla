------------------------------ MODULE TestSpec ------------------------------
(* Unit tests of the specification itself (evaluated by TLC as ASSUMEs).   *)
EXTENDS Backend, Scope, Json
P(s) == ParseText(Cp(s))
T == [k |-> "true"]
F == [k |-> "false"]
\* BigNat
ASSUME BToCp(B2p64) = Cp("18446744073709551616")
ASSUME BMul(BFromCp(Cp("18014398509481984")), BFromInt(1024)) = B2p64
ASSUME BDivMod(BFromInt(1000), BFromInt(7)) = <<BFromInt(142), BFromInt(6)>>
ASSUME BAnd(BFromInt(33261), BFromInt(4095)) = BFromInt(493)
ASSUME \A c \in (1..1200) : FoldLower(FoldUpper(FoldLower(c))) = FoldLower(c)
ASSUME FoldLower(1046) = 1078 /\ FoldLower(201) = 233 /\ FoldLower(916) = 948 /\ FoldLower(215) = 215 /\ FoldUpper(1078) = 1046
FastVals == {0, 1, 9, 10, 99, 512, 1024, 86400, 999999, 99999999, 999999999, 1000000000, 1790000000, 1999999999}
ASSUME \A x \in FastVals : \A y \in FastVals :
         /\ BAdd(BFromInt(x), BFromInt(y)) = BAddBig(BFromInt(x), BFromInt(y))
         /\ (x >= y => BSub(BFromInt(x), BFromInt(y)) = BSubBig(BFromInt(x), BFromInt(y)))
         /\ BMul(BFromInt(x), BFromInt(y)) = BMulBig(BFromInt(x), BFromInt(y))
         /\ (y # 0 => BDivMod(BFromInt(x), BFromInt(y)) = BDivModBig(BFromInt(x), BFromInt(y)))
ASSUME \A x \in {0, 1, 7, 420, 493, 2541, 4095, 33261, 65535, 999999999} : \A y \in {0, 1, 256, 384, 511, 3072, 4095, 61440, 123456789} :
         BAnd(BFromInt(x), BFromInt(y)) = BAndBig(BFromInt(x), BFromInt(y))
ASSUME ZQuot(ZInt(-7), ZInt(2)) = ZInt(-3)
\* front end
ASSUME P("").t = T /\ P("  \t ").t = T
ASSUME P("-true -a -false -o -name test").t = NOr(NAnd(T, F), [k |-> "name", s |-> Cp("test")])
ASSUME P("! ( -true -o -false )").t = NNot(NOr(T, F))
ASSUME P("-depth -threads 4 -print").o = [depth |-> TRUE, threads |-> <<4>>]
ASSUME P("-print -depth").t = NAnd([k |-> "print"], T)
ASSUME P("-size -10k").t = [k |-> "size", cmp |-> "lt", n |-> <<1, 0>>, u |-> "k"]
ASSUME P("-perm u+rwx,u-r").t = [k |-> "perm", chk |-> "eq", m |-> 192]
ASSUME P("-perm 10000").st = "rej" /\ P("-perm 777x").st = "rej" /\ P("-uid 4294967296").st = "rej"
ASSUME P("-uid 5-true").st = "rej" /\ P("-empty-true").st = "rej" /\ P("!-true").st = "unspec"
ASSUME P("-name\tfoo\t-print").t = NAnd([k |-> "name", s |-> Cp("foo")], [k |-> "print"])
ASSUME P("-printf 'a%%b\\1234\\x'").t.f = <<ELit(Cp("a")), EFld("%"), ELit(Cp("b")), EAscii(83), ELit(Cp("4")), EEsc("\\"), ELit(Cp("x"))>>
ASSUME P("-name").err = [why |-> "arg", kw |-> Cp("-name"), w |-> <<>>, fs |-> TRUE]
ASSUME P("-true nope2").err = [why |-> "unknown", w |-> Cp("nope2")]
ASSUME P("-maxdepth 3 -print").mayrej
\* glob
ASSUME FnMatch(Cp("*.txt"), Cp("a.txt")) /\ ~FnMatch(Cp("*.txt"), Cp("a.txd")) /\ FnMatch(Cp("[a-c]?z"), Cp("bqz")) /\ ~FnMatch(Cp("[!a]"), Cp("a"))
\* reader + evaluator on a hand-written program
Prog == Cp("(use-modules (lipe))\n(let* ((p (current-output-port)) (m (make-mutex)) (pr (make-printer p m #\\x0a)))\n (dynamic-wind (lambda () #t) (lambda () (lipe-scan \"/x\" (lipe-getopt-client-mount-path) (lambda () (and (> (uid) 5) (call-with-relative-path pr))) (lipe-getopt-required-attrs) 4)) (lambda () #t)))")
F1 == [NoFile EXCEPT !.relpath = Cp("d/f"), !.uid = BFromInt(7)]
ASSUME LET pr == Prepare(Prog) IN pr.ok /\ Len(pr.scans) = 1 /\ pr.scans[1].threads = VNat(<<4>>)
ASSUME LET r == RunPolicy(Prepare(Prog), F1) IN Truthy(r.v) /\ PlainOuts(r.fx, 1, <<>>, <<>>) = <<Out(StdOut, Cp("d/f") \o <<10>>)>>
ASSUME ~ReadAll(Cp("(a \"b\\c\")")).ok /\ ReadAll(Cp("(a \"b\\\\c\" #\\x1e #o17)")).ok
\* frames
ASSUME Decode(<<97, 30, 2, 98, 99, 30, 3>>, 1, <<>>) = [frames |-> << <<<<97>>, 2>>, <<<<98, 99>>, 3>> >>, rest |-> <<>>]
ASSUME Decode(<<97, 30>>, 1, <<>>).rest = <<97, 30>>
\* scope analysis: a free name bound nowhere that differs from a bound name only in its trailing number
LetOf(txt) == ReadAll(Cp(txt)).data[1]
ASSUME Stem(Cp("%g:p:30")) = Cp("%g:p:") /\ Stem(Cp("abc")) = Cp("abc") /\ Stem(Cp("12")) = <<>>
ASSUME ScopeKinds(LetOf("(let* ((g:1 (f)) (g:2 (h g:1))) (k g:2 g:1))")) = <<>>
ASSUME ScopeKinds(LetOf("(let* ((g:1 (f)) (g:3 (h g:1))) (k g:2))")) = <<"use-without-binding">>
ASSUME ScopeKinds(LetOf("(let* ((g:1 (f)) (g:3 (h g:2))) (k g:3))")) = <<"use-without-binding">>
ASSUME ScopeKinds(LetOf("(let* ((g:2 (h g:1)) (g:1 (f))) (k prim9 other))")) = <<"use-before-binding">>
ASSUME ScopeKinds(LetOf("(let* ((g:1 (f)) (g:1 (f))) (lambda (x1) (k x1 x2)))")) = <<"name-bound-twice">>
VARIABLE vX
Init == vX = 0
Next == vX' = vX
=============================================================================
