---- MODULE TestEval ----
EXTENDS SchemeEval, Json, IOUtils
Rec == ndJsonDeserialize(IOEnv.TRACE)
F1 == [NoFile EXCEPT !.name = Cp("foo.txt"), !.relpath = Cp("dir/foo.txt"), !.abspath = Cp("/mnt/dir/foo.txt"),
         !.uid = BFromInt(1000), !.gid = BFromInt(7), !.size = BFromInt(2048), !.mode = BFromInt(33188), !.fid = Cp("[0x1:0x2:0x0]")]
ASSUME \A i \in 1..Len(Rec) :
   LET text == Rec[i].c.renders[1].text
       p == Prepare(text)
   IN /\ PrintT(<<"prep", i, p.ok, IF p.ok THEN Len(p.scans) ELSE p.why>>)
      /\ (p.ok => PrintT(<<"run", RunPolicy(p, F1)>>))
VARIABLE vX
Init == vX = 0
Next == vX' = vX
====
