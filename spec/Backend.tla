------------------------------ MODULE Backend ------------------------------
(***************************************************************************)
(* Relating an emitted program to the tree it was compiled from.           *)
(*  - Outputs(fx, iomap): what one policy call wrote, as find-level        *)
(*    records (destination, bytes), in plain mode (printer critical        *)
(*    sections, direct prints) and in framed mode (the byte stream on      *)
(*    standard output decoded into frames  payload 0x1e tag  and routed    *)
(*    through the destination table)                                       *)
(*  - DirectedFiles(t, now): file records aimed at every constant of the   *)
(*    tree (value-1, value, value+1 per unit, each permission and type     *)
(*    bit, matching / near-miss / case-variant names, ...)                 *)
(*  - JudgeCompile(rec): the verdict kinds for one recorded compilation    *)
(***************************************************************************)
EXTENDS FindSem, Manager

\* ---------------------------------------------------------------- outputs
PortDest(port) == IF port = <<0>> THEN StdOut ELSE SubSeq(port, 3, Len(port))

\* plain mode: each critical section (lock .. unlock) is one record; a direct print is one record;
\* a write outside any critical section is its own record
RECURSIVE PlainOuts(_, _, _, _)
PlainOuts(fx, i, cur, acc) ==
  \* cur: <<>> outside a critical section, else <<port, bytes>> collected so far (port = <<-1>> until the first write)
  IF i > Len(fx) THEN acc
  ELSE LET e == fx[i] IN
    IF e.e = "lock" THEN PlainOuts(fx, i + 1, << <<-1>>, <<>> >>, acc)
    ELSE IF e.e = "unlock" THEN
       PlainOuts(fx, i + 1, <<>>, IF cur = <<>> \/ cur[1] = <<-1>> THEN acc ELSE Append(acc, Out(PortDest(cur[1]), cur[2])))
    ELSE IF e.e = "write" THEN
       IF cur = <<>> THEN PlainOuts(fx, i + 1, cur, Append(acc, Out(PortDest(e.port), e.bytes)))
       ELSE IF cur[1] = <<-1>> \/ cur[1] = e.port THEN PlainOuts(fx, i + 1, <<e.port, cur[2] \o e.bytes>>, acc)
       ELSE PlainOuts(fx, i + 1, <<e.port, e.bytes>>, Append(acc, Out(PortDest(cur[1]), cur[2])))
    ELSE IF e.e = "dwrite" THEN PlainOuts(fx, i + 1, cur, Append(acc, Out(StdOut, e.bytes)))
    ELSE PlainOuts(fx, i + 1, cur, acc)

\* framed mode: the stream of bytes reaching standard output during the call
RECURSIVE StdStream(_, _)
StdStream(fx, i) ==
  IF i > Len(fx) THEN <<>>
  ELSE IF fx[i].e = "write" /\ fx[i].port = <<0>> THEN fx[i].bytes \o StdStream(fx, i + 1)
  ELSE IF fx[i].e = "dwrite" THEN fx[i].bytes \o StdStream(fx, i + 1)
  ELSE StdStream(fx, i + 1)

\* decode  payload RS tag  frames; returns [frames |-> << <<payload, tag>> >>, rest |-> undecodable tail]
RECURSIVE Decode(_, _, _)
Decode(s, p, acc) ==
  IF p > Len(s) THEN [frames |-> acc, rest |-> <<>>]
  ELSE LET rs == IndexFrom(s, p, cRS) IN
       IF rs = 0 \/ rs = Len(s) THEN [frames |-> acc, rest |-> SubSeq(s, p, Len(s))]
       ELSE Decode(s, rs + 2, Append(acc, <<SubSeq(s, p, rs - 1), s[rs + 1]>>))

IoEntry(iomap, tag) ==
  LET hits == {i \in 1..Len(iomap.entries) : iomap.entries[i].tag = tag}
  IN IF hits = {} THEN [found |-> FALSE] ELSE [found |-> TRUE, e |-> iomap.entries[CHOOSE i \in hits : TRUE]]
EntryDest(e) == IF e.dest = "stdout" THEN StdOut ELSE e.file

FramedOuts(fx, iomap) ==
  LET d == Decode(StdStream(fx, 1), 1, <<>>)
      outs == [i \in 1..Len(d.frames) |->
                 LET en == IoEntry(iomap, d.frames[i][2]) IN
                 IF en.found THEN Out(EntryDest(en.e), d.frames[i][1] \o en.e.term)
                 ELSE Out(<<0, 0, 0>>, d.frames[i][1])]
  IN [outs |-> Eager(outs), rest |-> d.rest,
      unknownTags |-> {d.frames[i][2] : i \in {j \in 1..Len(d.frames) : ~IoEntry(iomap, d.frames[j][2]).found}},
      writesElsewhere |-> \E i \in 1..Len(fx) : fx[i].e = "write" /\ fx[i].port # <<0>>]

\* ---------------------------------------------------------------- resources created by the bindings
\* classification by behaviour, not by name: a matcher maps a string to a boolean without effects;
\* a printer applied to a string writes
ProbeFile == [NoFile EXCEPT !.name = <<120>>, !.relpath = <<120>>]
ClassOf(v, genv) ==
  IF IsV(v, "port") THEN "port" ELSE IF IsV(v, "mutex") THEN "mutex" ELSE IF IsV(v, "printer") THEN "printer"
  ELSE IF IsV(v, "clo") /\ Len(v.clo.ps) = 1 THEN
     LET r == Apply(v, <<VStr(<<120>>)>>, [file |-> ProbeFile, g |-> genv], 5000) IN
     IF \E i \in 1..Len(r.fx) : r.fx[i].e = "write" THEN "printer"
     ELSE IF IsV(r.v, "bool") /\ r.fx = <<>> THEN "matcher" ELSE "other"
  ELSE "other"
CountClass(env, c) == Cardinality({i \in 1..Len(env) : ClassOf(env[i][2], env) = c})
ResourceKinds(prep, t) ==
  LET m == ManagerFor(t) IN
  (IF CountClass(prep.env, "matcher") # Len(m.matches) THEN <<"matcher-count">> ELSE <<>>)
  \o (IF CountClass(prep.env, "printer") # Len(m.printers) THEN <<"printer-count">> ELSE <<>>)

\* ---------------------------------------------------------------- directed files
BaseFile(now) ==
  [name |-> Cp("foo.txt"), relpath |-> Cp("dir/sub/foo.txt"), abspath |-> Cp("/mnt/lustre/dir/sub/foo.txt"),
   mount |-> Cp("/mnt/lustre"), user |-> Cp("alice"), group |-> Cp("staff"), fid |-> Cp("[0x200000401:0x1:0x0]"),
   type |-> Cp("f"), mode |-> BFromInt(33188), uid |-> BFromInt(1000), gid |-> BFromInt(100), ino |-> BFromInt(12345),
   nlink |-> BOne, size |-> BFromInt(4096), blocks |-> BFromInt(8),
   atime |-> BSub(now, BFromInt(100000)), mtime |-> BSub(now, BFromInt(200000)), ctime |-> BSub(now, BFromInt(300000)),
   projid |-> BFromInt(42), stripes |-> BOne, stripesize |-> BFromInt(1048576), mirrors |-> BZero,
   pools |-> <<Cp("pool1")>>, xattrs |-> << <<Cp("user.foo"), Cp("bar")>> >>,
   readable |-> TRUE, writable |-> TRUE, executable |-> FALSE, empty |-> FALSE]

Around(n) == (IF BIsZero(n) THEN <<>> ELSE <<BSub(n, BOne)>>) \o <<n, BAdd(n, BOne)>>
NumField(t) ==
  CASE t.k = "uid" -> "uid" [] t.k = "gid" -> "gid" [] t.k = "inum" -> "ino" [] t.k = "links" -> "nlink"
    [] t.k = "mirror-count" -> "mirrors" [] t.k = "stripe-count" -> "stripes"

SwapCase(s) == [i \in 1..Len(s) |-> IF FoldLower(s[i]) # s[i] THEN FoldLower(s[i]) ELSE FoldUpper(s[i])]
\* a string the glob pattern p matches: '*' -> "ab", '?' -> "c", '[' .. ']' -> its first member
RECURSIVE Instantiate(_, _)
Instantiate(p, i) ==
  IF i > Len(p) THEN <<>>
  ELSE IF p[i] = cSTAR THEN <<97, 98>> \o Instantiate(p, i + 1)
  ELSE IF p[i] = cQM THEN <<99>> \o Instantiate(p, i + 1)
  ELSE IF p[i] = cLB THEN
     LET close == BrClose(p, i + 1, TRUE) IN
     IF close = 0 \/ p[i + 1] \in {cBANG, 94} THEN <<p[i]>> \o Instantiate(p, i + 1)
     ELSE <<p[i + 1]>> \o Instantiate(p, close + 1)
  ELSE <<p[i]>> \o Instantiate(p, i + 1)
NameCandidates(s) ==
  << s, Eager(SwapCase(s)), s \o <<120>>, Instantiate(s, 1), Eager(SwapCase(Instantiate(s, 1))), Cp("zzz"), Tail(s \o <<120>>) >>

WithField(f, fld, v) == [f EXCEPT ![fld] = v]
TypeModes == <<32768, 16384, 40960, 24576, 8192, 4096, 49152>>

\* variants of file b aimed at leaf t
LeafFiles(t, b, now) ==
  IF t.k \in {"uid", "gid", "inum", "links", "mirror-count", "stripe-count"} THEN
     LET vs == Around(t.n) IN [i \in 1..Len(vs) |-> WithField(b, NumField(t), vs[i])]
  ELSE IF t.k = "size" THEN
     LET m == SizeMult(t.u)
         nm == BMul(t.n, m)
         lo == IF BIsZero(t.n) THEN BZero ELSE BSub(nm, m)
         vs == <<BZero, lo, BAdd(lo, BOne), nm, BAdd(nm, BOne), BAdd(nm, m)>> \o (IF BIsZero(nm) THEN <<>> ELSE <<BSub(nm, BOne)>>)
     IN [i \in 1..Len(vs) |-> WithField(b, "size", vs[i])]
  ELSE IF t.k \in {"atime", "ctime", "mtime"} THEN
     LET s == BFromInt(TimeSecs(t.u))
         a0 == BMul(t.n, s)
         a1 == BAdd(a0, s)
         ages == <<a0, BAdd(a0, BOne), a1, BSub(a1, BOne), BAdd(a1, BOne)>> \o (IF BIsZero(a0) THEN <<>> ELSE <<BSub(a0, BOne)>>)
         ok == SelectSeq(ages, LAMBDA a : BLe(a, now))
     IN [i \in 1..Len(ok) |-> WithField(b, TimeField(t), BSub(now, ok[i]))]
  ELSE IF t.k = "perm" THEN
     LET flips == [i \in 0..11 |-> IntOf((BitsOf(t.m) \ {i}) \cup ({i} \ BitsOf(t.m)))]
         ms == <<t.m, 0, 4095>> \o [i \in 1..12 |-> flips[i - 1]]
     IN [i \in 1..Len(ms) |-> WithField(b, "mode", BFromInt(32768 + ms[i]))]
        \o <<WithField(b, "mode", BFromInt(16384 + t.m))>>
  ELSE IF t.k = "type" THEN
     [i \in 1..7 |-> [WithField(b, "mode", BFromInt(TypeModes[i] + 420)) EXCEPT !.type = <<Cp("fdlbcps")[i]>>]]
  ELSE IF t.k \in {"name", "iname"} THEN
     LET cs == NameCandidates(t.s) IN [i \in 1..Len(cs) |-> WithField(b, "name", cs[i])]
  ELSE IF t.k \in {"path", "ipath"} THEN
     LET cs == NameCandidates(t.s) IN [i \in 1..Len(cs) |-> WithField(b, "relpath", cs[i])]
  ELSE IF t.k = "pool" THEN
     <<WithField(b, "pools", <<>>), WithField(b, "pools", <<t.s>>), WithField(b, "pools", <<Cp("other"), t.s>>),
       WithField(b, "pools", <<t.s \o <<120>>>>)>>
  ELSE IF t.k = "xattr" THEN
     <<WithField(b, "xattrs", <<>>), WithField(b, "xattrs", << <<t.s, Cp("v")>> >>),
       WithField(b, "xattrs", << <<t.s \o <<120>>, Cp("v")>> >>), WithField(b, "xattrs", << <<Cp("a"), Cp("b")>>, <<t.s, <<>>>> >>)>>
  ELSE IF t.k = "xattr-match" THEN
     LET n1 == Instantiate(t.s, 1)  v1 == Instantiate(t.s2, 1) IN
     <<WithField(b, "xattrs", <<>>), WithField(b, "xattrs", << <<n1, v1>> >>), WithField(b, "xattrs", << <<n1, v1 \o <<120>>>> >>),
       WithField(b, "xattrs", << <<n1 \o <<120>>, v1>> >>), WithField(b, "xattrs", << <<t.s, t.s2>> >>)>>
  ELSE IF t.k \in {"empty", "executable", "readable", "writable"} THEN
     <<WithField(b, t.k, TRUE), WithField(b, t.k, FALSE)>>
  ELSE IF t.k \in {"printf", "fprintf"} THEN
     <<[b EXCEPT !.size = BFromInt(1), !.blocks = BFromInt(3), !.mode = BFromInt(16877), !.type = Cp("d"), !.xattrs = << <<Cp("foo"), Cp("v~%")>> >>]>>
  ELSE <<>>

LeafSeq(t) == SetToSeqL(LeafNodes(t))
\* make every leaf true (resp. false) where a variant achieves it; later leaves win on shared fields
RECURSIVE Steer(_, _, _, _, _)
Steer(leaves, i, b, now, want) ==
  IF i > Len(leaves) THEN b
  ELSE LET t == leaves[i] IN
       IF t.k \in ActionKinds \/ t.k \in {"true", "false"} THEN Steer(leaves, i + 1, b, now, want)
       ELSE LET vs == LeafFiles(t, b, now)
                ok == {j \in 1..Len(vs) : TestTruth(t, vs[j], now) = want}
            IN Steer(leaves, i + 1, IF ok = {} THEN b ELSE vs[CHOOSE j \in ok : \A j2 \in ok : j <= j2], now, want)

DirectedFiles(t, now) ==
  LET leaves == LeafSeq(t)
      b0 == BaseFile(now)
      bT == Steer(leaves, 1, b0, now, TRUE)
      bF == Steer(leaves, 1, b0, now, FALSE)
      vary(b) == Flatten([i \in 1..Len(leaves) |-> Eager(LeafFiles(leaves[i], b, now))])
  IN <<b0, bT, bF>> \o vary(b0) \o vary(bT) \o vary(bF)
=============================================================================
