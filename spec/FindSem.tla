------------------------------ MODULE FindSem ------------------------------
(***************************************************************************)
(* find's evaluation rules on an abstract file record (property C02, C09). *)
(*   Sem(t, f, now) = [truth, outs, stop]                                   *)
(*   outs: sequence of [dest |-> <<>> for standard output | file name,     *)
(*                      bytes |-> payload followed by the terminator]      *)
(* Rules: short-circuit AND / OR, NOT, ',' evaluated as AND (the project's *)
(* documented deviation: ListIsAnd), every test with its N / +N / -N       *)
(* comparison, unit rounding and field, every action writing what it names *)
(* and yielding true, -quit requesting the end of the scan.                *)
(* Path conventions are the project's: -print and %P give the path         *)
(* relative to the mount point, %p the absolute path, %h the directory of  *)
(* the relative path, %H the mount point; times print as epoch seconds.    *)
(***************************************************************************)
EXTENDS Ast, Scope

ListIsAnd == TRUE

Cmp(c, v, n) == IF c = "gt" THEN BGt(v, n) ELSE IF c = "lt" THEN BLt(v, n) ELSE v = n

\* number of units of size m needed for `size` bytes, rounding up
CeilDiv(a, m) == LET q == BDivMod(a, m) IN IF BIsZero(q[2]) THEN q[1] ELSE BAdd(q[1], BOne)
\* whole units of `secs` seconds elapsed between t and now (fraction ignored); t <= now assumed
Age(now, t, secs) == BDiv(BSub(now, t), BFromInt(secs))

TypeBits(c) ==
  CASE c = "f" -> 32768 [] c = "d" -> 16384 [] c = "l" -> 40960 [] c = "b" -> 24576
    [] c = "c" -> 8192 [] c = "p" -> 4096 [] c = "s" -> 49152
\* file type letter from the mode (S_IFMT = 0170000 = 61440)
ModeTypeBits(mode) == BToInt(BAnd(mode, BFromInt(61440)))
PermOf(mode) == BitsOf(BToInt(BAnd(mode, BFromInt(4095))))

TimeField(t) == IF t.k = "atime" THEN "atime" ELSE IF t.k = "ctime" THEN "ctime" ELSE "mtime"

TestTruth(t, f, now) ==
  CASE t.k = "true" -> TRUE
    [] t.k = "false" -> FALSE
    [] t.k = "empty" -> f.empty
    [] t.k = "executable" -> f.executable
    [] t.k = "readable" -> f.readable
    [] t.k = "writable" -> f.writable
    [] t.k = "uid" -> Cmp(t.cmp, f.uid, t.n)
    [] t.k = "gid" -> Cmp(t.cmp, f.gid, t.n)
    [] t.k = "inum" -> Cmp(t.cmp, f.ino, t.n)
    [] t.k = "links" -> Cmp(t.cmp, f.nlink, t.n)
    [] t.k = "mirror-count" -> Cmp(t.cmp, f.mirrors, t.n)
    [] t.k = "stripe-count" -> Cmp(t.cmp, f.stripes, t.n)
    [] t.k = "size" -> Cmp(t.cmp, CeilDiv(f.size, SizeMult(t.u)), t.n)
    [] t.k \in {"atime", "ctime", "mtime"} -> Cmp(t.cmp, Age(now, f[TimeField(t)], TimeSecs(t.u)), t.n)
    [] t.k = "name" -> FnMatch(t.s, f.name)
    [] t.k = "iname" -> FnMatchCi(t.s, f.name)
    [] t.k = "path" -> FnMatch(t.s, f.relpath)
    [] t.k = "ipath" -> FnMatchCi(t.s, f.relpath)
    [] t.k = "pool" -> \E i \in 1..Len(f.pools) : f.pools[i] = t.s
    [] t.k = "xattr" -> \E i \in 1..Len(f.xattrs) : f.xattrs[i][1] = t.s
    [] t.k = "xattr-match" -> \E i \in 1..Len(f.xattrs) : FnMatch(t.s, f.xattrs[i][1]) /\ FnMatch(t.s2, f.xattrs[i][2])
    [] t.k = "type" -> \E i \in 1..Len(t.ts) : ModeTypeBits(f.mode) = TypeBits(t.ts[i])
    [] t.k = "perm" ->
         LET have == PermOf(f.mode)  want == BitsOf(t.m) IN
         IF t.chk = "eq" THEN have = want
         ELSE IF t.chk = "all" THEN want \subseteq have
         ELSE \* "any": true if any of the GIVEN bits is set (property C08).  With no bit given that is
              \* false for every file (GNU find >= 4.5.12 special-cases -perm /000 to match everything;
              \* the property as stated does not, and neither does the implementation).
              want \cap have # {}

\* constructs on which find's own documentation is not definite: not judged by C02
RECURSIVE SemUnspecified(_)
SemUnspecified(t) ==
  IF IsBinary(t) THEN SemUnspecified(t.l) \/ SemUnspecified(t.r)
  ELSE IF IsUnary(t) THEN SemUnspecified(t.e)
  ELSE \* a backslash in a pattern quotes the next character for fnmatch but is an ordinary character
       \* for the literal comparison the code generator selects when the pattern has no wildcard:
       \* what such a pattern means is left to the runtime
       \/ (t.k \in {"name", "iname", "path", "ipath"} /\ HasChar(t.s, cBSL))
       \/ (t.k = "xattr-match" /\ (HasChar(t.s, cBSL) \/ HasChar(t.s2, cBSL)))

\* ---- formatted output ----
EscByte(x) == CASE x = "a" -> 7 [] x = "b" -> 8 [] x = "f" -> 12 [] x = "n" -> 10 [] x = "r" -> 13 [] x = "t" -> 9
                [] x = "v" -> 11 [] x = "0" -> 0 [] x = "\\" -> 92
DecB(b) == BToCp(b)
OctB(b) == LET ds == BToBase(b, 8) IN [i \in 1..Len(ds) |-> 48 + ds[i]]
FieldOut(e, f) ==
  LET n == e.f IN
  IF "c" \in DOMAIN e THEN
     \* %Ak %Ck %Tk: '@' is seconds since the epoch, any other selector a strftime rendering
     LET fld == IF n = "A" THEN f.atime ELSE IF n = "C" THEN f.ctime ELSE f.mtime IN
     IF e.c = cAT THEN DecB(fld)
     ELSE WStrftimeL \o <<cPCT, e.c>> \o <<cSP>> \o DecB(fld) \o <<cRC>>
  ELSE IF n = "xattr" THEN
     LET hits == {i \in 1..Len(f.xattrs) : f.xattrs[i][1] = e.s} IN
     IF hits = {} THEN <<>> ELSE f.xattrs[CHOOSE i \in hits : TRUE][2]
  ELSE CASE n = "%" -> <<cPCT>>
    [] n = "a" -> DecB(f.atime) [] n = "c" -> DecB(f.ctime) [] n = "t" -> DecB(f.mtime)
    [] n = "b" -> DecB(f.blocks)
    [] n = "k" -> DecB(CeilDiv(f.blocks, BFromInt(2)))
    [] n = "s" -> DecB(f.size)
    [] n = "f" -> f.name
    [] n = "p" -> f.abspath
    [] n = "P" -> f.relpath
    [] n = "h" -> Dirname(f.relpath)
    [] n = "H" -> f.mount
    [] n = "g" -> f.group [] n = "G" -> DecB(f.gid)
    [] n = "u" -> f.user  [] n = "U" -> DecB(f.uid)
    [] n = "i" -> DecB(f.ino)
    [] n = "n" -> DecB(f.nlink)
    [] n = "m" -> OctB(BAnd(f.mode, BFromInt(4095)))
    [] n = "y" -> f.type
    [] n = "S" -> IF BIsZero(f.size) THEN WDiv0
                  ELSE WRatioL \o DecB(BMulSmall(f.blocks, 512)) \o <<cSLASH>> \o DecB(f.size) \o <<cRC>>
    [] n = "fid" -> f.fid
    [] n = "projid" -> DecB(f.projid)
    [] n = "mirror-count" -> DecB(f.mirrors)
    [] n = "stripe-count" -> DecB(f.stripes)
    [] n = "stripe-size" -> DecB(f.stripesize)

RECURSIVE FormatOut(_, _, _)
FormatOut(els, i, f) ==
  IF i > Len(els) THEN <<>>
  ELSE LET e == els[i] IN
    IF e.el = "lit" THEN e.s \o FormatOut(els, i + 1, f)
    ELSE IF e.el = "esc" THEN
       IF e.x = "c" THEN <<>>                               \* \c: stop printing from this format
       ELSE IF e.x = "ascii" THEN <<e.n>> \o FormatOut(els, i + 1, f)
       ELSE <<EscByte(e.x)>> \o FormatOut(els, i + 1, f)
    ELSE Eager(FieldOut(e, f)) \o FormatOut(els, i + 1, f)

StdOut == <<>>
Out(dest, bytes) == [dest |-> dest, bytes |-> bytes]
ActionOuts(t, f) ==
  CASE t.k = "print" -> <<Out(StdOut, f.relpath \o <<cLF>>)>>
    [] t.k = "defaultprint" -> <<Out(StdOut, f.relpath \o <<cLF>>)>>
    [] t.k = "print0" -> <<Out(StdOut, f.relpath \o <<0>>)>>
    [] t.k = "printf" -> <<Out(StdOut, FormatOut(t.f, 1, f))>>
    [] t.k = "fprint" -> <<Out(t.s, f.relpath \o <<cLF>>)>>
    [] t.k = "fprint0" -> <<Out(t.s, f.relpath \o <<0>>)>>
    [] t.k = "fprintf" -> <<Out(t.s, FormatOut(t.f, 1, f))>>
    [] t.k = "printfid" -> <<Out(StdOut, f.fid \o <<cLF>>)>>
    [] t.k = "quit" -> <<>>

S3(truth, outs, stop) == [truth |-> truth, outs |-> outs, stop |-> stop]

RECURSIVE Sem(_, _, _)
Sem(t, f, now) ==
  IF t.k = "and" \/ (t.k = "list" /\ ListIsAnd) THEN
     LET a == Sem(t.l, f, now) IN
     IF ~a.truth THEN a
     ELSE LET b == Sem(t.r, f, now) IN S3(b.truth, a.outs \o b.outs, a.stop \/ b.stop)
  ELSE IF t.k = "or" THEN
     LET a == Sem(t.l, f, now) IN
     IF a.truth THEN a
     ELSE LET b == Sem(t.r, f, now) IN S3(b.truth, a.outs \o b.outs, a.stop \/ b.stop)
  ELSE IF t.k = "not" THEN LET a == Sem(t.e, f, now) IN S3(~a.truth, a.outs, a.stop)
  ELSE IF t.k = "prec" THEN Sem(t.e, f, now)
  ELSE IF t.k \in ActionKinds THEN S3(TRUE, ActionOuts(t, f), t.k = "quit")
  ELSE S3(TestTruth(t, f, now), <<>>, FALSE)

\* the implicit -print rule (C09): with no action anywhere, ( e ) -a -print
WithImplicitPrint(t) == IF HasAction(t) THEN t ELSE NAnd(t, [k |-> "defaultprint"])
SemTop(t, f, now) == Sem(WithImplicitPrint(t), f, now)

\* ---- which constructs the Scheme target supports (C12) ----
RECURSIVE FmtHasUnsupported(_)
FmtHasUnsupported(els) ==
  \E i \in 1..Len(els) : els[i].el = "fld" /\ ~("c" \in DOMAIN els[i]) /\ ~("s" \in DOMAIN els[i]) /\ els[i].f \in FmtUnsupported
FmtHasClear(els) == \E i \in 1..Len(els) : els[i].el = "esc" /\ els[i].x = "c"
LeafUnsupported(t) ==
  \/ t.k \in UnsupportedTests \/ t.k \in UnsupportedActions \/ t.k = "xdev"
  \/ (t.k \in {"printf", "fprintf"} /\ FmtHasUnsupported(t.f))
\* \c may be refused or implemented (by truncating the format): both are acceptable
LeafMayRefuse(t) == t.k \in {"printf", "fprintf"} /\ FmtHasClear(t.f)
UnsupportedLeaves(t) == {n \in LeafNodes(t) : LeafUnsupported(n)}
MayRefuseLeaves(t) == {n \in LeafNodes(t) : LeafMayRefuse(n)}
=============================================================================
