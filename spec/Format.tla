------------------------------- MODULE Format -------------------------------
(***************************************************************************)
(* The printf mini-language of -printf / -fprintf (property C14).          *)
(*                                                                         *)
(* FmtParse(s) is the unique segmentation of a format string:              *)
(*   - each '%' directive of the documented table is one element           *)
(*   - each backslash escape of the documented table is one element        *)
(*   - an octal escape is backslash + exactly three octal digits; "\0" not  *)
(*     followed by two more octal digits is NUL (the project's table lists  *)
(*     \0 and \NNN); 1- or 2-digit octal runs that GNU find reads as octal  *)
(*     but the project's table does not list are UNSPECIFIED here          *)
(*   - a backslash before any other character (or at the end) stands for   *)
(*     itself: one Backslash element, the character stays ordinary text    *)
(*   - each maximal run of other characters is one literal                 *)
(*   - '%' not followed by a documented directive: the string is rejected  *)
(* Result: [st |-> "ok", els |-> <<...>>] / [st |-> "rej"] / [st |-> "unspec"] *)
(***************************************************************************)
EXTENDS BigNat

\* single-letter directives without argument
FmtLetters == Cp("%abcdDfFgGhHiklmMnpPsStuUyYZ")
FmtLetterSet == {FmtLetters[i] : i \in 1..Len(FmtLetters)}
\* letters followed by one selector character
FmtTimeLetters == {65, 67, 84}   \* A C T
\* brace directives
FmtBrace == << <<Cp("{fid}"), "fid">>, <<Cp("{projid}"), "projid">>,
               <<Cp("{mirror-count}"), "mirror-count">>, <<Cp("{stripe-count}"), "stripe-count">>,
               <<Cp("{stripe-size}"), "stripe-size">> >>
FmtXattrPrefix == Cp("{xattr:")
\* backslash escapes: letter -> element name
FmtEscLetters == Cp("abcfnrtv\\")
FmtEscSet == {FmtEscLetters[i] : i \in 1..Len(FmtEscLetters)}

\* name of a one-letter directive / escape = the 1-char string itself
ChrStr(c) == AsciiSeq[c - 31]

ELit(s)      == [el |-> "lit", s |-> s]
EFld(f)      == [el |-> "fld", f |-> f]
EFldC(f, c)  == [el |-> "fld", f |-> f, c |-> c]
EFldS(f, s)  == [el |-> "fld", f |-> f, s |-> s]
EEsc(x)      == [el |-> "esc", x |-> x]
EAscii(n)    == [el |-> "esc", x |-> "ascii", n |-> n]

\* Directive starting right after a '%' at position i (s[i] is the char after '%').
\* Returns [st, e, n] with n = number of characters consumed after the '%'.
FmtDirective(s, i) ==
  IF i > Len(s) THEN [st |-> "rej"]
  ELSE LET c == s[i] IN
    IF c \in FmtLetterSet THEN [st |-> "ok", e |-> EFld(ChrStr(c)), n |-> 1]
    ELSE IF c \in FmtTimeLetters THEN
       IF i + 1 > Len(s) THEN [st |-> "rej"]
       ELSE [st |-> "ok", e |-> EFldC(ChrStr(c), s[i + 1]), n |-> 2]
    ELSE IF c = cLC THEN
       LET hits == {k \in 1..Len(FmtBrace) : StartsAt(s, i, FmtBrace[k][1])} IN
       IF hits # {} THEN
          LET k == CHOOSE k \in hits : TRUE
          IN [st |-> "ok", e |-> EFld(FmtBrace[k][2]), n |-> Len(FmtBrace[k][1])]
       ELSE IF StartsAt(s, i, FmtXattrPrefix) THEN
          LET b == i + Len(FmtXattrPrefix)
              close == IndexFrom(s, b, cRC)
          IN IF close = 0 THEN [st |-> "rej"]
             ELSE LET name == SubSeq(s, b, close - 1) IN
                  IF name # <<>> /\ AllIn(name, IsAlpha)
                  THEN [st |-> "ok", e |-> EFldS("xattr", name), n |-> close - i + 1]
                  \* attribute names with other characters: language not documented
                  ELSE [st |-> "unspec"]
       ELSE [st |-> "rej"]
    ELSE [st |-> "rej"]

\* Escape starting right after a backslash at position i.
FmtEscape(s, i) ==
  IF i > Len(s) THEN [st |-> "ok", e |-> EEsc("\\"), n |-> 0]
  ELSE LET c == s[i]
           run == RunLen(s, i, Octals) IN
    IF run >= 3 THEN
       [st |-> "ok", e |-> EAscii((s[i] - 48) * 64 + (s[i + 1] - 48) * 8 + (s[i + 2] - 48)), n |-> 3]
    ELSE IF run >= 1 THEN
       IF c = c0 /\ run = 1 THEN [st |-> "ok", e |-> EEsc("0"), n |-> 1]
       ELSE [st |-> "unspec"]
    ELSE IF c \in FmtEscSet THEN [st |-> "ok", e |-> EEsc(ChrStr(c)), n |-> 1]
    ELSE [st |-> "ok", e |-> EEsc("\\"), n |-> 0]

\* i: scan position; litStart: start of the pending literal run; acc: elements so far
RECURSIVE FmtScan(_, _, _, _)
FmtScan(s, i, litStart, acc) ==
  LET flush == IF litStart < i THEN Append(acc, ELit(SubSeq(s, litStart, i - 1))) ELSE acc IN
  IF i > Len(s) THEN [st |-> "ok", els |-> flush]
  ELSE IF s[i] = cPCT THEN
     LET d == FmtDirective(s, i + 1) IN
     IF d.st # "ok" THEN [st |-> d.st]
     ELSE FmtScan(s, i + 1 + d.n, i + 1 + d.n, Append(flush, d.e))
  ELSE IF s[i] = cBSL THEN
     LET d == FmtEscape(s, i + 1) IN
     IF d.st # "ok" THEN [st |-> d.st]
     ELSE FmtScan(s, i + 1 + d.n, i + 1 + d.n, Append(flush, d.e))
  ELSE FmtScan(s, i + 1, litStart, acc)

FmtParse(s) == FmtScan(s, 1, 1, <<>>)

(***************************************************************************)
(* Model-level sanity of the segmentation (checked by MC_Format):          *)
(*  - the source text of the elements concatenates back to the input       *)
(*  - no empty literal, no two adjacent literals                           *)
(***************************************************************************)
FmtBraceSrc(f) == LET k == CHOOSE k \in 1..Len(FmtBrace) : FmtBrace[k][2] = f IN FmtBrace[k][1]
Oct3(n) == <<48 + (n \div 64), 48 + ((n \div 8) % 8), 48 + (n % 8)>>
\* Source text of an element; a Backslash element stands for either "\\" or a lone "\"
\* so the round trip is checked by a scan rather than plain concatenation (FmtCovers).
ElSrcSet(e) ==
  IF e.el = "lit" THEN {e.s}
  ELSE IF e.el = "fld" THEN
     IF "c" \in DOMAIN e THEN {<<cPCT, Cp(e.f)[1], e.c>>}
     ELSE IF "s" \in DOMAIN e THEN {<<cPCT>> \o FmtXattrPrefix \o e.s \o <<cRC>>}
     ELSE IF Len(e.f) = 1 THEN {<<cPCT>> \o Cp(e.f)}
     ELSE {<<cPCT>> \o FmtBraceSrc(e.f)}
  ELSE IF e.x = "ascii" THEN {<<cBSL>> \o Oct3(e.n)}
  ELSE IF e.x = "\\" THEN {<<cBSL, cBSL>>, <<cBSL>>}
  ELSE {<<cBSL>> \o Cp(e.x)}

RECURSIVE FmtCovers(_, _, _)
FmtCovers(els, s, i) ==
  IF els = <<>> THEN i = Len(s) + 1
  ELSE \E src \in ElSrcSet(Head(els)) : StartsAt(s, i, src) /\ FmtCovers(Tail(els), s, i + Len(src))

FmtWellFormed(els) ==
  /\ \A k \in 1..Len(els) : els[k].el = "lit" => els[k].s # <<>>
  /\ \A k \in 1..(Len(els) - 1) : ~(els[k].el = "lit" /\ els[k + 1].el = "lit")
  /\ \A k \in 1..Len(els) : els[k].el = "lit" => ~HasChar(els[k].s, cPCT) /\ ~HasChar(els[k].s, cBSL)

\* Directives the Scheme target cannot express (property C12)
FmtUnsupported == {"d", "D", "F", "l", "M", "Y", "Z"}
=============================================================================
