------------------------------- MODULE ArgGen -------------------------------
(***************************************************************************)
(* Generators of argument words for the MC_* machines: members of each     *)
(* argument language (ArgLang) and junk used to corrupt them.  What the    *)
(* resulting text MEANS is always decided by ParseText, never here.        *)
(***************************************************************************)
EXTENDS Front

GStr == << Cp("foo"), Cp("*.txt"), Cp("a.b"), Cp("'a b'"), Cp("\"x y\""), Cp("-print"), Cp("F[ab]?"), Cp("0") >>
GCmp32 == << Cp("0"), Cp("7"), Cp("+42"), Cp("-42"), Cp("4294967295"), Cp("+00000000007"), Cp("-0") >>
GCmp64 == << Cp("0"), Cp("+1"), Cp("-9"), Cp("18446744073709551615"), Cp("4294967296"), Cp("+000000000000000000012"), Cp("0000000000000000000000") >>
GU32 == << Cp("0"), Cp("4"), Cp("16"), Cp("4294967295"), Cp("00000000007") >>
\* (numerals wider than any machine integer but small in value: zero padding is decimal too; seed C05-i)
GSizeN == << Cp("-000000000000000000012"), Cp("0"), Cp("+10"), Cp("-1024") >>
GSizeU == << <<>>, Cp("b"), Cp("c"), Cp("w"), Cp("k"), Cp("M"), Cp("G"), Cp("T") >>
GTimeN == << Cp("+0000000000000000000003"), Cp("0"), Cp("+3"), Cp("-44") >>
GTimeU == << <<>>, Cp("s"), Cp("m"), Cp("h"), Cp("d") >>
GTypeL == Cp("bcdpfls")
GPerm == << Cp("000"), Cp("644"), Cp("0755"), Cp("7777"), Cp("-0644"), Cp("/222"), Cp("u+x"), Cp("-g=rw"), Cp("/a-w"),
            Cp("ugo=rwx"), Cp("'u=r'") >>
GFmt == << Cp("%p\\012"), Cp("'%p\\c'"), Cp("'a\\\\cb\\\\'"), Cp("'\\033[1m%f\\007'"), Cp("%p\\n"), Cp("'%p %s\\n'"), Cp("\"[%{fid}]\\t%U:%G\\n\""), Cp("x"), Cp("'%%%A@\\101'"), Cp("%h/%f\\0") >>

\* cross product helper: all concatenations a \o b
Cross(as, bs) == Flatten([i \in 1..Len(as) |-> [j \in 1..Len(bs) |-> as[i] \o bs[j]]])

GTypes1 == [i \in 1..7 |-> <<GTypeL[i]>>]
GTypes2 == Flatten([i \in 1..7 |-> [j \in 1..7 |-> <<GTypeL[i], cCOMMA, GTypeL[j]>>]])
GTypes3 == << Cp("f,d,l"), Cp("b,c,p"), Cp("s,s,s"), Cp("d,f,d") >>

Members(lang) ==
  CASE lang = "str"   -> GStr
    [] lang = "str2"  -> GStr
    [] lang = "fmt"   -> GFmt
    [] lang = "perm"  -> GPerm
    [] lang = "types" -> Eager(GTypes1) \o Eager(GTypes2) \o GTypes3
    [] lang = "size"  -> Cross(GSizeN, GSizeU)
    [] lang = "timeM" -> Cross(GTimeN, GTimeU)
    [] lang = "timeD" -> Cross(GTimeN, GTimeU)
    [] lang = "cmp32" -> GCmp32
    [] lang = "cmp64" -> GCmp64
    [] lang = "u32"   -> GU32

\* a short list used where the argument itself is not the subject
OneMember(lang) == Members(lang)[1]

\* junk characters used to corrupt a member (appended, prefixed, inserted)
Junk == Cp("x5-+,/=%\\uk(:@")

\* words that are invalid from their first character, per language (C18)
BadFromStart(lang) ==
  CASE lang = "cmp32" -> << Cp("x"), Cp("abc"), Cp("=5"), Cp("%"), Cp("k1"), Cp(".5") >>
    [] lang = "cmp64" -> << Cp("x"), Cp("abc"), Cp("=5"), Cp("%"), Cp("k1"), Cp(".5") >>
    [] lang = "u32"   -> << Cp("x"), Cp("-1"), Cp("+1"), Cp("=5"), Cp("%"), Cp("n") >>
    [] lang = "size"  -> << Cp("k"), Cp("x1"), Cp("=5"), Cp("%"), Cp("M"), Cp(".5") >>
    [] lang = "timeM" -> << Cp("d"), Cp("x1"), Cp("=5"), Cp("%"), Cp("m"), Cp(".5") >>
    [] lang = "timeD" -> << Cp("d"), Cp("x1"), Cp("=5"), Cp("%"), Cp("m"), Cp(".5") >>
    [] lang = "types" -> << Cp("x"), Cp("Z"), Cp("1"), Cp(",f"), Cp("%"), Cp("F") >>
    [] lang = "perm"  -> << Cp("x"), Cp("9"), Cp("+x"), Cp("=r"), Cp("%"), Cp("rwx"), Cp("'x y'"), Cp("\"9 u+x\"") >>
    \* (the last two: quoted, with a blank inside -- the offending WORD is the whole quoted value)
    [] lang = "fmt"   -> << Cp("%q"), Cp("'%q is no directive'"), Cp("%e,%p,%s,%u,%g,%m,%t,%a,%c,%i,%n,%b,%k,%U,%G,%y,%f,%h,%P,%H,%S,aaaaaaaaaaaaaaaaaaaa\\n"),
                         Cp("%{nosuch}"), Cp("%"), Cp("%A") >>
    [] OTHER -> << >>
=============================================================================
