----------------------------- MODULE SchemeRead -----------------------------
(***************************************************************************)
(* Guile's lexical syntax, as far as the emitted programs (and anything a  *)
(* user string could turn them into) need it.  Input: code points.         *)
(* Data:  [sym |-> cps]  [str |-> cps]  [num |-> Z]  [chr |-> cp]           *)
(*        [bool |-> b]   [list |-> <<data>>]                               *)
(* ReadAll(s) = [ok |-> TRUE, data |-> <<...>>] or [ok |-> FALSE, why, at]  *)
(* String escapes are those Guile's reader accepts:                        *)
(*   \\ \" \| \( \a \b \f \n \r \t \v \0 \<newline> \xHH \uHHHH \UHHHHHH    *)
(* any other character after a backslash is a READ ERROR.                  *)
(***************************************************************************)
EXTENDS Glob, BigNat

SWhite == {cSP, cTAB, cLF, cCR, cFF, cVT}
SDelim == SWhite \cup {cLP, cRP, cDQ, cSEMI}
RErr(why, at) == [ok |-> FALSE, why |-> why, at |-> at]

\* skip whitespace and ';' comments
RECURSIVE SSkip(_, _)
SSkip(s, p) ==
  IF p > Len(s) THEN p
  ELSE IF s[p] \in SWhite THEN SSkip(s, p + 1)
  ELSE IF s[p] = cSEMI THEN
     LET nl == IndexFrom(s, p, cLF) IN IF nl = 0 THEN Len(s) + 1 ELSE SSkip(s, nl + 1)
  ELSE p

\* hex value of s[a..b]
RECURSIVE HexNum(_, _, _, _)
HexNum(s, a, b, acc) == IF a > b THEN acc ELSE HexNum(s, a + 1, b, acc * 16 + HexVal(s[a]))
AllHex(s, a, b) == b <= Len(s) /\ \A k \in a..b : IsHex(s[k])

\* after backslash-newline Guile skips leading blanks of the next line
SSkipBlankLine(s, p) == IF p <= Len(s) /\ s[p] \in {cSP, cTAB} THEN p + RunLen(s, p, {cSP, cTAB}) ELSE p

\* string literal body starting after the opening quote; returns [ok, str, p]
RECURSIVE SStr(_, _, _)
SStr(s, p, acc) ==
  IF p > Len(s) THEN RErr("unterminated string", p)
  ELSE IF s[p] = cDQ THEN [ok |-> TRUE, d |-> [str |-> acc], p |-> p + 1]
  ELSE IF s[p] # cBSL THEN SStr(s, p + 1, Append(acc, s[p]))
  ELSE IF p + 1 > Len(s) THEN RErr("unterminated string", p)
  ELSE LET c == s[p + 1] IN
    IF c = cBSL \/ c = cDQ \/ c = cBAR \/ c = cLP THEN SStr(s, p + 2, Append(acc, c))
    ELSE IF c = 97 THEN SStr(s, p + 2, Append(acc, 7))        \* \a
    ELSE IF c = 98 THEN SStr(s, p + 2, Append(acc, 8))        \* \b
    ELSE IF c = 102 THEN SStr(s, p + 2, Append(acc, 12))      \* \f
    ELSE IF c = 110 THEN SStr(s, p + 2, Append(acc, 10))      \* \n
    ELSE IF c = 114 THEN SStr(s, p + 2, Append(acc, 13))      \* \r
    ELSE IF c = 116 THEN SStr(s, p + 2, Append(acc, 9))       \* \t
    ELSE IF c = 118 THEN SStr(s, p + 2, Append(acc, 11))      \* \v
    ELSE IF c = c0 THEN SStr(s, p + 2, Append(acc, 0))        \* \0
    ELSE IF c = cLF THEN SStr(s, SSkipBlankLine(s, p + 2), acc)
    ELSE IF c = 120 THEN                                      \* \xHH
       IF AllHex(s, p + 2, p + 3) THEN SStr(s, p + 4, Append(acc, HexNum(s, p + 2, p + 3, 0)))
       ELSE RErr("bad \\x escape", p)
    ELSE IF c = 117 THEN                                      \* \uHHHH
       IF AllHex(s, p + 2, p + 5) THEN SStr(s, p + 6, Append(acc, HexNum(s, p + 2, p + 5, 0)))
       ELSE RErr("bad \\u escape", p)
    ELSE IF c = 85 THEN                                       \* \UHHHHHH
       IF AllHex(s, p + 2, p + 7) THEN SStr(s, p + 8, Append(acc, HexNum(s, p + 2, p + 7, 0)))
       ELSE RErr("bad \\U escape", p)
    ELSE RErr("invalid character in escape sequence", p)

\* token = maximal run of non-delimiters starting at p
RECURSIVE STokLen(_, _)
STokLen(s, p) == IF p > Len(s) \/ s[p] \in SDelim THEN 0 ELSE 1 + STokLen(s, p + 1)

NamedChars == << <<Cp("nul"), 0>>, <<Cp("null"), 0>>, <<Cp("newline"), 10>>, <<Cp("linefeed"), 10>>, <<Cp("nl"), 10>>,
                 <<Cp("space"), 32>>, <<Cp("sp"), 32>>, <<Cp("tab"), 9>>, <<Cp("return"), 13>>, <<Cp("alarm"), 7>>,
                 <<Cp("backspace"), 8>>, <<Cp("delete"), 127>>, <<Cp("escape"), 27>>, <<Cp("page"), 12>>, <<Cp("vtab"), 11>> >>
WTrueLong == Cp("true")   WFalseLong == Cp("false")

\* radix number body: digits of base k
DigitOk(c, k) == IsHex(c) /\ HexVal(c) < k
RECURSIVE RadixVal(_, _, _)
RadixVal(w, k, acc) == IF w = <<>> THEN acc ELSE RadixVal(Tail(w), k, BAdd(BMulSmall(acc, k), BFromInt(HexVal(Head(w)))))

\* '#' syntax starting at p (s[p] = '#')
SHash(s, p) ==
  IF p + 1 > Len(s) THEN RErr("lone #", p)
  ELSE LET c == s[p + 1] IN
    IF c = cBSL THEN
       \* character literal: '#\' then at least one character, then the rest of the token
       IF p + 2 > Len(s) THEN RErr("bad character literal", p)
       ELSE LET n == 1 + STokLen(s, p + 3)      \* first char always taken, even a delimiter
                w == SubSeq(s, p + 2, p + 1 + n)
            IN IF n = 1 THEN [ok |-> TRUE, d |-> [chr |-> w[1]], p |-> p + 2 + n]
               ELSE IF w[1] = 120 /\ \A k \in 2..n : IsHex(w[k]) THEN
                    [ok |-> TRUE, d |-> [chr |-> HexNum(w, 2, n, 0)], p |-> p + 2 + n]
               ELSE LET hits == {k \in 1..Len(NamedChars) : NamedChars[k][1] = w} IN
                    IF hits = {} THEN RErr("unknown character name", p)
                    ELSE [ok |-> TRUE, d |-> [chr |-> NamedChars[CHOOSE k \in hits : TRUE][2]], p |-> p + 2 + n]
    ELSE LET n == STokLen(s, p + 1)
             w == SubSeq(s, p + 1, p + n)
         IN
      IF w = <<116>> \/ w = WTrueLong THEN [ok |-> TRUE, d |-> [bool |-> TRUE], p |-> p + 1 + n]
      ELSE IF w = <<102>> \/ w = WFalseLong THEN [ok |-> TRUE, d |-> [bool |-> FALSE], p |-> p + 1 + n]
      ELSE IF n >= 2 /\ w[1] \in {111, 120, 98, 100} THEN
         LET k == IF w[1] = 111 THEN 8 ELSE IF w[1] = 120 THEN 16 ELSE IF w[1] = 98 THEN 2 ELSE 10
             body == Tail(w)
         IN IF \A j \in 1..Len(body) : DigitOk(body[j], k)
            THEN [ok |-> TRUE, d |-> [num |-> ZNat(RadixVal(body, k, BZero))], p |-> p + 1 + n]
            ELSE RErr("bad radix number", p)
      ELSE RErr("unsupported # syntax", p)

\* a plain token: integer or symbol
SAtom(w) ==
  LET body == IF w[1] \in {cPLUS, cMINUS} /\ Len(w) > 1 THEN Tail(w) ELSE w IN
  IF AllIn(body, IsDigit) THEN [num |-> ZMk(w[1] = cMINUS, BFromCp(body))]
  ELSE [sym |-> w]

RECURSIVE SDatum(_, _), SListItems(_, _, _)
SDatum(s, p0) ==
  LET p == SSkip(s, p0) IN
  IF p > Len(s) THEN RErr("eof", p)
  ELSE IF s[p] = cLP THEN SListItems(s, p + 1, <<>>)
  ELSE IF s[p] = cRP THEN RErr("unexpected )", p)
  ELSE IF s[p] = cDQ THEN SStr(s, p + 1, <<>>)
  ELSE IF s[p] = cHASH THEN SHash(s, p)
  ELSE IF s[p] = cSQ THEN
     LET q == SDatum(s, p + 1) IN
     IF ~q.ok THEN q ELSE [ok |-> TRUE, d |-> [list |-> <<[sym |-> Cp("quote")], q.d>>], p |-> q.p]
  ELSE LET n == STokLen(s, p) IN [ok |-> TRUE, d |-> SAtom(SubSeq(s, p, p + n - 1)), p |-> p + n]

SListItems(s, p0, acc) ==
  LET p == SSkip(s, p0) IN
  IF p > Len(s) THEN RErr("unterminated list", p)
  ELSE IF s[p] = cRP THEN [ok |-> TRUE, d |-> [list |-> acc], p |-> p + 1]
  ELSE LET q == SDatum(s, p) IN IF ~q.ok THEN q ELSE SListItems(s, q.p, Append(acc, q.d))

RECURSIVE SAll(_, _, _)
SAll(s, p0, acc) ==
  LET p == SSkip(s, p0) IN
  IF p > Len(s) THEN [ok |-> TRUE, data |-> acc]
  ELSE LET q == SDatum(s, p) IN IF ~q.ok THEN q ELSE SAll(s, q.p, Append(acc, q.d))
ReadAll(s) == SAll(s, 1, <<>>)

\* ---- helpers on data ----
IsSym(d) == "sym" \in DOMAIN d
IsStr(d) == "str" \in DOMAIN d
IsNum(d) == "num" \in DOMAIN d
IsChr(d) == "chr" \in DOMAIN d
IsBool(d) == "bool" \in DOMAIN d
IsList(d) == "list" \in DOMAIN d
SymIs(d, name) == IsSym(d) /\ d.sym = name
HeadIs(d, name) == IsList(d) /\ d.list # <<>> /\ SymIs(d.list[1], name)

\* skeleton: the datum with every string literal's content blanked
RECURSIVE Skeleton(_)
Skeleton(d) ==
  IF IsStr(d) THEN [str |-> <<>>]
  ELSE IF IsList(d) THEN [list |-> [k \in 1..Len(d.list) |-> Skeleton(d.list[k])]]
  ELSE d
\* all string literals of a datum, in reading order
RECURSIVE Strings(_)
Strings(d) ==
  IF IsStr(d) THEN <<d.str>>
  ELSE IF IsList(d) THEN Flatten([k \in 1..Len(d.list) |-> Strings(d.list[k])])
  ELSE <<>>
=============================================================================
