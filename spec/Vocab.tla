------------------------------- MODULE Vocab -------------------------------
(***************************************************************************)
(* The vocabulary: every keyword, the tree node it builds, its argument    *)
(* languages, and whether the Scheme target supports it.  Single source of *)
(* truth for C05, C12, C13, C18.                                           *)
(***************************************************************************)
EXTENDS ArgLang

KW(kw, cls, node, args) == [kw |-> Cp(kw), name |-> kw, cls |-> cls, node |-> node, args |-> args]

VocabTests == <<
  KW("-amin",   "test", "atime", <<"timeM">>),
  KW("-anewer", "test", "anewer", <<"str">>),
  KW("-atime",  "test", "atime", <<"timeD">>),
  KW("-cmin",   "test", "ctime", <<"timeM">>),
  KW("-cnewer", "test", "cnewer", <<"str">>),
  KW("-ctime",  "test", "ctime", <<"timeD">>),
  KW("-empty",  "test", "empty", <<>>),
  KW("-executable", "test", "executable", <<>>),
  KW("-false",  "test", "false", <<>>),
  KW("-fstype", "test", "fstype", <<"str">>),
  KW("-gid",    "test", "gid", <<"cmp32">>),
  KW("-group",  "test", "group", <<"str">>),
  KW("-ilname", "test", "ilname", <<"str">>),
  KW("-iname",  "test", "iname", <<"str">>),
  KW("-inum",   "test", "inum", <<"cmp32">>),
  KW("-ipath",  "test", "ipath", <<"str">>),
  KW("-iregex", "test", "iregex", <<"str">>),
  KW("-links",  "test", "links", <<"cmp64">>),
  KW("-mirror-count", "test", "mirror-count", <<"cmp32">>),
  KW("-mmin",   "test", "mtime", <<"timeM">>),
  KW("-mnewer", "test", "mnewer", <<"str">>),
  KW("-mtime",  "test", "mtime", <<"timeD">>),
  KW("-name",   "test", "name", <<"str">>),
  KW("-nouser", "test", "nouser", <<>>),
  KW("-nogroup","test", "nogroup", <<>>),
  KW("-path",   "test", "path", <<"str">>),
  KW("-perm",   "test", "perm", <<"perm">>),
  KW("-pool",   "test", "pool", <<"str">>),
  KW("-readable","test", "readable", <<>>),
  KW("-regex",  "test", "regex", <<"str">>),
  KW("-samefile","test", "samefile", <<"str">>),
  KW("-size",   "test", "size", <<"size">>),
  KW("-stripe-count", "test", "stripe-count", <<"cmp32">>),
  KW("-true",   "test", "true", <<>>),
  KW("-type",   "test", "type", <<"types">>),
  KW("-uid",    "test", "uid", <<"cmp32">>),
  KW("-user",   "test", "user", <<"str">>),
  KW("-xattr-match", "test", "xattr-match", <<"str", "str2">>),
  KW("-xattr",  "test", "xattr", <<"str">>),
  KW("-writable","test", "writable", <<>>) >>

VocabActions == <<
  KW("-fls",     "action", "fls", <<"str">>),
  KW("-fprintf", "action", "fprintf", <<"str", "fmt">>),
  KW("-fprint0", "action", "fprint0", <<"str">>),
  KW("-fprint",  "action", "fprint", <<"str">>),
  KW("-ls",      "action", "ls", <<>>),
  KW("-print-file-fid", "action", "printfid", <<>>),
  KW("-printf",  "action", "printf", <<"fmt">>),
  KW("-print0",  "action", "print0", <<>>),
  KW("-print",   "action", "print", <<>>),
  KW("-prune",   "action", "prune", <<>>),
  KW("-quit",    "action", "quit", <<>>) >>

VocabOptions == <<
  KW("-depth",    "option", "g_depth", <<>>),
  KW("-maxdepth", "option", "g_maxdepth", <<"u32">>),
  KW("-mindepth", "option", "g_mindepth", <<"u32">>),
  KW("-threads",  "option", "g_threads", <<"u32">>) >>

Vocab == VocabTests \o VocabActions \o VocabOptions
VocabIdx == 1..Len(Vocab)

\* operator spellings
OpWords == << <<Cp("-a"), "and">>, <<Cp("-and"), "and">>, <<Cp("-o"), "or">>, <<Cp("-or"), "or">>,
              <<Cp("!"), "not">>, <<Cp(","), "comma">>, <<Cp("("), "lp">>, <<Cp(")"), "rp">> >>

LookupKw(w) ==
  LET hits == {i \in VocabIdx : Vocab[i].kw = w}
  IN IF hits = {} THEN 0 ELSE CHOOSE i \in hits : TRUE
LookupOp(w) ==
  LET hits == {i \in 1..Len(OpWords) : OpWords[i][1] = w}
  IN IF hits = {} THEN "" ELSE OpWords[CHOOSE i \in hits : TRUE][2]

\* node kinds per class
TestKinds == {VocabTests[i].node : i \in 1..Len(VocabTests)}
ActionKinds == {VocabActions[i].node : i \in 1..Len(VocabActions)} \cup {"defaultprint"}
OptionKinds == {VocabOptions[i].node : i \in 1..Len(VocabOptions)}

\* what the Scheme target cannot express (C12)
UnsupportedTests == {"anewer", "cnewer", "fstype", "group", "ilname", "iregex", "lname", "mnewer",
                     "nogroup", "nouser", "regex", "samefile", "user"}
UnsupportedActions == {"prune", "ls", "fls"}
=============================================================================
