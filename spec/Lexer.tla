------------------------------- MODULE Lexer -------------------------------
(***************************************************************************)
(* The first pass: text -> (options, token list), as a machine.            *)
(*                                                                         *)
(* State  [s, p, toks, opts, leading, mayrej, phase, err]                  *)
(*   s        the input (code points)          p     scan position         *)
(*   toks     tokens produced so far           opts  option register       *)
(*   leading  still inside the leading run of options                      *)
(*   mayrej   a -maxdepth/-mindepth was seen: the implementation may       *)
(*            either honour it or reject the whole input (C13)             *)
(*   phase    "run" | "ok" | "rej" | "unspec"                              *)
(* LexStep is one action of the machine (SkipBlank+word recognition):      *)
(*   LexParen, LexOperator, LeadingOption, RelocateOption, LexPrimary,     *)
(*   Reject, Finish.  LexRun iterates it; Lexer machine variables in       *)
(*   MC_Lexer use the same step so TLC explores exactly this function.     *)
(*                                                                         *)
(* Words: in keyword position a word is "(" or ")" alone, or a maximal run *)
(* of characters other than blank and ")".  An argument word is a quoted   *)
(* string '...' or "..." (non-empty, no embedded closing quote) or a       *)
(* maximal run of characters other than blank and ")" (prelude.rs).        *)
(* Inputs whose word boundaries the properties do not define (glue such    *)
(* as "!-true", "-true(", "'a'b", an unterminated quote) are "unspec".     *)
(***************************************************************************)
EXTENDS Vocab, TLC

NotWordEnd == {c \in 0..127 : c \notin Blank /\ c # cRP}
IsWordChar(c) == c \notin Blank /\ c # cRP

RECURSIVE WordLen(_, _)
WordLen(s, i) == IF i > Len(s) \/ ~IsWordChar(s[i]) THEN 0 ELSE 1 + WordLen(s, i + 1)
RECURSIVE SkipBlanks(_, _)
SkipBlanks(s, i) == IF i <= Len(s) /\ IsBlank(s[i]) THEN SkipBlanks(s, i + 1) ELSE i

AtBoundary(s, i) == i > Len(s) \/ IsBlank(s[i]) \/ s[i] = cRP

\* Argument word at position p (p <= Len(s), s[p] not blank).
\* [st |-> "ok", w, n (next position), q (quoted)] / [st |-> "missing"] / [st |-> "unspec"]
ReadArgWord(s, p) ==
  IF s[p] = cRP THEN [st |-> "missing"]
  ELSE IF s[p] \in {cSQ, cDQ} THEN
     LET close == IndexFrom(s, p + 1, s[p]) IN
     IF close = 0 \/ close = p + 1 THEN [st |-> "unspec"]
     \* text glued to the closing quote is junk after the argument: the word is not in any argument language
     ELSE IF ~AtBoundary(s, close + 1) THEN [st |-> "junk", w |-> SubSeq(s, p, close)]
     ELSE [st |-> "ok", w |-> SubSeq(s, p + 1, close - 1), n |-> close + 1, q |-> TRUE]
  ELSE LET n == WordLen(s, p)
       IN [st |-> "ok", w |-> SubSeq(s, p, p + n - 1), n |-> p + n, q |-> FALSE]

\* Read the arguments of vocabulary entry e starting at position p (just after the keyword).
\* [st |-> "ok", v (merged fields), n] / [st |-> "rej", w, fs] / [st |-> "unspec"]
RECURSIVE ReadArgs(_, _, _, _, _)
ReadArgs(s, p, e, k, acc) ==
  IF k > Len(e.args) THEN [st |-> "ok", v |-> acc, n |-> p]
  ELSE LET q == SkipBlanks(s, p) IN
    IF q > Len(s) THEN [st |-> "rej", w |-> <<>>, fs |-> TRUE, missing |-> TRUE]
    ELSE IF q = p THEN
       \* no blank after the keyword / previous argument: only ")" can stand here
       IF s[p] = cRP THEN [st |-> "rej", w |-> <<>>, fs |-> TRUE, missing |-> TRUE]
       ELSE [st |-> "unspec"]
    ELSE LET aw == ReadArgWord(s, q) IN
      IF aw.st = "missing" THEN [st |-> "rej", w |-> <<>>, fs |-> TRUE, missing |-> TRUE]
      ELSE IF aw.st = "unspec" THEN [st |-> "unspec"]
      ELSE IF aw.st = "junk" THEN [st |-> "rej", w |-> aw.w, fs |-> FALSE, missing |-> FALSE]
      ELSE IF aw.q /\ ~LangQuotable(e.args[k]) THEN [st |-> "unspec"]
      ELSE IF ~aw.q /\ aw.w[1] \in {cSQ, cDQ} THEN [st |-> "unspec"]
      ELSE LET r == ArgParse(e.args[k], aw.w) IN
        IF r.st = "unspec" THEN [st |-> "unspec"]
        ELSE IF r.st = "rej" THEN [st |-> "rej", w |-> aw.w, fs |-> r.fs, missing |-> FALSE]
        ELSE ReadArgs(s, aw.n, e, k + 1, acc @@ r.v)

OptsInit == [depth |-> FALSE, threads |-> <<>>]
OptsUpdate(o, node) ==
  IF node.k = "g_depth" THEN [o EXCEPT !.depth = TRUE]
  ELSE IF node.k = "g_threads" THEN [o EXCEPT !.threads = node.n]
  ELSE o

TrueNode == [k |-> "true"]
TokPrim(node) == [tk |-> "prim", node |-> node]
TokOp(name) == [tk |-> name]

LexInit(s) == [s |-> s, p |-> 1, toks |-> <<>>, opts |-> OptsInit, leading |-> TRUE,
               mayrej |-> FALSE, phase |-> "run", err |-> [why |-> "none"]]

\* "nope" is the implementation's placeholder spelling for its only positional option; it is not
\* part of find's vocabulary and no property says what it means: not judged.
WNope == Cp("nope")
Murky(w) ==
  \/ w = WNope
  \/ (Len(w) > 1 /\ w[1] \in {cBANG, cCOMMA})
  \/ (\E i \in 2..Len(w) : w[i] = cLP)
  \/ w[1] \in {cSQ, cDQ}

LexStep(st) ==
  LET s == st.s
      p == SkipBlanks(s, st.p)
  IN
  IF p > Len(s) THEN
     \* Finish: an input holding only options (or nothing) means -true
     [st EXCEPT !.p = p, !.phase = "ok",
                !.toks = IF st.toks = <<>> THEN <<TokPrim(TrueNode)>> ELSE st.toks]
  ELSE IF s[p] = cLP THEN
     [st EXCEPT !.p = p + 1, !.toks = Append(st.toks, TokOp("lp")), !.leading = FALSE]
  ELSE IF s[p] = cRP THEN
     IF p + 1 <= Len(s) /\ ~AtBoundary(s, p + 1) THEN [st EXCEPT !.phase = "unspec"]
     ELSE [st EXCEPT !.p = p + 1, !.toks = Append(st.toks, TokOp("rp")), !.leading = FALSE]
  ELSE
     LET n == WordLen(s, p)
         w == SubSeq(s, p, p + n - 1)
         op == LookupOp(w)
         ki == LookupKw(w)
     IN
     IF op # "" THEN
        [st EXCEPT !.p = p + n, !.toks = Append(st.toks, TokOp(op)), !.leading = FALSE]
     ELSE IF ki # 0 THEN
        LET e == Vocab[ki]
            a == ReadArgs(s, p + n, e, 1, [k |-> e.node])
        IN
        IF a.st = "unspec" THEN [st EXCEPT !.phase = "unspec"]
        ELSE IF a.st = "rej" THEN
           [st EXCEPT !.phase = "rej",
                      !.err = [why |-> "arg", kw |-> e.kw, w |-> a.w, fs |-> a.fs]]
        ELSE IF e.cls = "option" THEN
           LET dis == e.node \in {"g_maxdepth", "g_mindepth"} IN
           IF st.leading
           THEN [st EXCEPT !.p = a.n, !.opts = OptsUpdate(st.opts, a.v),
                           !.mayrej = st.mayrej \/ dis]
           ELSE [st EXCEPT !.p = a.n, !.opts = OptsUpdate(st.opts, a.v),
                           !.mayrej = st.mayrej \/ dis,
                           !.toks = Append(st.toks, TokPrim(TrueNode))]
        ELSE
           \* a size whose byte count exceeds 64 bits may be refused already here (C07)
           [st EXCEPT !.p = a.n, !.toks = Append(st.toks, TokPrim(a.v)), !.leading = FALSE,
                      !.mayrej = st.mayrej \/ (e.node = "size" /\ SizeOverflows(a.v))]
     ELSE IF Murky(w) THEN [st EXCEPT !.phase = "unspec"]
     ELSE [st EXCEPT !.phase = "rej", !.err = [why |-> "unknown", w |-> w]]

RECURSIVE LexRunR(_)
LexRunR(st) == IF st.phase # "run" THEN st ELSE LexRunR(LexStep(st))
LexRun(s) == LexRunR(LexInit(s))
=============================================================================
