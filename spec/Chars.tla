------------------------------- MODULE Chars -------------------------------
(***************************************************************************)
(* Code points and character classes.  All text in the specification is a  *)
(* sequence of Unicode code points (Seq(Nat)); Cp("...") converts an ASCII  *)
(* literal so that the rest of the spec stays readable.  TLC evaluates each *)
(* zero-arity constant definition once, so keyword tables built with Cp    *)
(* cost nothing at model-checking time.                                    *)
(***************************************************************************)
EXTENDS Naturals, Sequences, FiniteSets

Ascii == " !\"#$%&'()*+,-./0123456789:;<=>?@ABCDEFGHIJKLMNOPQRSTUVWXYZ[\\]^_`abcdefghijklmnopqrstuvwxyz{|}~"

\* NOTE on TLC: [x \in S |-> e] stays an unevaluated lambda (e is re-evaluated on every
\* application) and zero-arity definitions that use operators of module TLC (@@, :>) are NOT
\* cached.  SubSeq forces an explicit tuple, so tables are built with it and are cached.
AsciiSeq == SubSeq([i \in 1..Len(Ascii) |-> SubSeq(Ascii, i, i)], 1, Len(Ascii))
CharCodeOf(c) == 31 + CHOOSE i \in 1..95 : AsciiSeq[i] = c

Cp1(c) == IF c = "\t" THEN 9 ELSE IF c = "\n" THEN 10 ELSE IF c = "\r" THEN 13
          ELSE IF c = "\f" THEN 12 ELSE CharCodeOf(c)

Cp(s) == SubSeq([i \in 1..Len(s) |-> Cp1(SubSeq(s, i, i))], 1, Len(s))
\* force a function over 1..n into an explicit tuple
Eager(f) == SubSeq(f, 1, Len(f))

\* Named code points
cNUL == 0   cTAB == 9   cLF == 10  cVT == 11  cFF == 12  cCR == 13  cRS == 30
cSP == 32   cBANG == 33 cDQ == 34  cHASH == 35 cPCT == 37 cSQ == 39
cLP == 40   cRP == 41   cSTAR == 42 cPLUS == 43 cCOMMA == 44 cMINUS == 45 cDOT == 46
cSLASH == 47 c0 == 48   c7 == 55   c9 == 57   cCOLON == 58 cSEMI == 59 cEQ == 61
cQM == 63   cAT == 64   cLB == 91  cBSL == 92 cRB == 93  cLC == 123 cBAR == 124
cRC == 125  cTILDE == 126

\* find's blank set: what separates words
Blank == {cSP, cTAB, cLF, cCR}
IsBlank(c) == c \in Blank
IsDigit(c) == c >= 48 /\ c <= 57
IsOctal(c) == c >= 48 /\ c <= 55
IsUpper(c) == c >= 65 /\ c <= 90
IsLower(c) == c >= 97 /\ c <= 122
IsAlpha(c) == IsUpper(c) \/ IsLower(c)
IsHex(c)   == IsDigit(c) \/ (c >= 65 /\ c <= 70) \/ (c >= 97 /\ c <= 102)
HexVal(c)  == IF IsDigit(c) THEN c - 48 ELSE IF c >= 97 THEN c - 87 ELSE c - 55
ToLower(c) == IF IsUpper(c) THEN c + 32 ELSE c
\* simple case folding for matching without regard to case: ASCII, Latin-1, Greek and Cyrillic capitals (the
\* letters with a one-to-one lower-case partner; what the C library's towlower does for them)
FoldLower(c) == IF IsUpper(c) THEN c + 32
                ELSE IF c >= 192 /\ c <= 222 /\ c # 215 THEN c + 32
                ELSE IF c >= 913 /\ c <= 937 /\ c # 930 THEN c + 32
                ELSE IF c >= 1040 /\ c <= 1071 THEN c + 32
                ELSE IF c >= 1024 /\ c <= 1039 THEN c + 80
                ELSE c
FoldUpper(c) == IF IsLower(c) THEN c - 32
                ELSE IF c >= 224 /\ c <= 254 /\ c # 247 THEN c - 32
                ELSE IF c >= 945 /\ c <= 969 /\ c # 962 THEN c - 32
                ELSE IF c >= 1072 /\ c <= 1103 THEN c - 32
                ELSE IF c >= 1104 /\ c <= 1119 THEN c - 80
                ELSE c

\* Sequence helpers on code point sequences
Drop(s, n) == IF n >= Len(s) THEN <<>> ELSE SubSeq(s, n + 1, Len(s))
Take(s, n) == IF n >= Len(s) THEN s ELSE SubSeq(s, 1, n)
StartsWith(s, p) == Len(p) <= Len(s) /\ SubSeq(s, 1, Len(p)) = p
StartsAt(s, i, p) == i + Len(p) - 1 <= Len(s) /\ SubSeq(s, i, i + Len(p) - 1) = p
Last(s) == s[Len(s)]
AllIn(s, P(_)) == \A i \in 1..Len(s) : P(s[i])
HasChar(s, c) == \E i \in 1..Len(s) : s[i] = c

Digits == 48..57
Octals == 48..55
Alphas == (65..90) \cup (97..122)

\* Length of the maximal run of s, starting at i, whose elements are in set S
RECURSIVE RunLen(_, _, _)
RunLen(s, i, S) ==
  IF i > Len(s) \/ s[i] \notin S THEN 0 ELSE 1 + RunLen(s, i + 1, S)

\* Index of first occurrence of c at or after i, 0 if none
RECURSIVE IndexFrom(_, _, _)
IndexFrom(s, i, c) ==
  IF i > Len(s) THEN 0 ELSE IF s[i] = c THEN i ELSE IndexFrom(s, i + 1, c)

\* Concatenate a sequence of sequences
RECURSIVE Flatten(_)
Flatten(ss) == IF ss = <<>> THEN <<>> ELSE Head(ss) \o Flatten(Tail(ss))

\* Join with a separator
RECURSIVE Join(_, _)
Join(ss, sep) ==
  IF ss = <<>> THEN <<>>
  ELSE IF Len(ss) = 1 THEN ss[1]
  ELSE ss[1] \o sep \o Join(Tail(ss), sep)

\* Does needle occur in hay (as a contiguous subsequence)?
Contains(hay, needle) ==
  \E i \in 1..(Len(hay) - Len(needle) + 1) : SubSeq(hay, i, i + Len(needle) - 1) = needle
=============================================================================
