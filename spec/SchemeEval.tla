----------------------------- MODULE SchemeEval -----------------------------
(***************************************************************************)
(* The runtime model: an evaluator for the Guile subset that emitted       *)
(* policies use, plus the LiPE primitives, over data read by SchemeRead.   *)
(*                                                                         *)
(* Values  [num |-> Z] [bool |-> b] [str |-> cps] [chr |-> cp] [sym |-> cps]*)
(*         [unspec |-> 0] [clo |-> [ps, body, env]] [prim |-> name]         *)
(*         [printer |-> [port, mutex, term]] [port |-> id] [mutex |-> k]    *)
(*         [ratio |-> <<num, den>>] [tm |-> Z] [lst |-> <<values>>]          *)
(*         [err |-> text]  (run-time error)   [unmod |-> name] (outside the *)
(*         model: the orchestrator reports a tool error, never a violation) *)
(* Evaluation result  [v |-> value, fx |-> <<effects>>, k |-> counter]       *)
(* Effects  [e |-> "lock"|"unlock", m] [e |-> "write", port, bytes]          *)
(*          [e |-> "dwrite", bytes] (a runtime builtin printing by itself)  *)
(*          [e |-> "open", port, name] [e |-> "close", port] [e |-> "stop"]  *)
(*                                                                         *)
(* ASSUMPTIONS about code that is not in the repository (each one operator *)
(* here): make-printer, display, with-mutex, call-with-*, print-relative-  *)
(* path, print-file-fid, lipe-scan-break, round-up-power-of-2, lov-pools,  *)
(* xattr-ref-string, type->char, format directives ~a ~d ~o ~f ~~ ~%.      *)
(***************************************************************************)
EXTENDS SchemeRead, TLC

VNum(z) == [num |-> z]
VNat(b) == [num |-> ZNat(b)]
VBool(b) == [bool |-> b]
VStr(s) == [str |-> s]
VUnspec == [unspec |-> 0]
VErr(t) == [err |-> t]
VUnmod(n) == [unmod |-> n]
IsV(v, f) == f \in DOMAIN v
IsBad(v) == IsV(v, "err") \/ IsV(v, "unmod")
Truthy(v) == ~(IsV(v, "bool") /\ ~v.bool)

R(v, fx, k) == [v |-> v, fx |-> fx, k |-> k]

\* Environments.  The bindings of the program-level let* form the GLOBAL environment, a sequence of
\* <<name, value>> kept in the evaluation context (cx.g); an environment value is
\*   [gn |-> number of global bindings visible, l |-> local bindings (innermost last)]
\* A closure captures (gn, l) only.  (Capturing the global sequence by value would nest every
\* closure's environment inside the next one: 2^n growth of the value TLC has to traverse.)
RECURSIVE SeqLookup(_, _, _)
SeqLookup(sq, name, i) ==
  IF i = 0 THEN [found |-> FALSE]
  ELSE IF sq[i][1] = name THEN [found |-> TRUE, v |-> sq[i][2]]
  ELSE SeqLookup(sq, name, i - 1)
EnvLookup(env, cx, name) ==
  LET a == SeqLookup(env.l, name, Len(env.l)) IN
  IF a.found THEN a ELSE SeqLookup(cx.g, name, env.gn)
EnvEmpty == [gn |-> 0, l |-> <<>>]
BindLocal(env, name, v) == [env EXCEPT !.l = Append(env.l, <<name, v>>)]
AtTopLevel(env, cx) == env.l = <<>> /\ env.gn = Len(cx.g)

\* ---- names ----
N(s) == Cp(s)
nLetStar == N("let*")  nLet == N("let")  nLambda == N("lambda")  nIf == N("if")  nAnd == N("and")  nOr == N("or")
nBegin == N("begin")  nWhen == N("when")  nUnless == N("unless")  nQuote == N("quote")  nCond == N("cond")  nElse == N("else")
nWithMutex == N("with-mutex")  nDynWind == N("dynamic-wind")  nDefine == N("define")
SpecialForms == {nLetStar, nLet, nLambda, nIf, nAnd, nOr, nBegin, nWhen, nUnless, nQuote, nCond, nWithMutex}

\* ---- number / string rendering ----
NumToCp(z) == (IF z.neg THEN <<cMINUS>> ELSE <<>>) \o BToCp(z.mag)
OctToCp(z) == (IF z.neg THEN <<cMINUS>> ELSE <<>>) \o [i \in 1..Len(BToBase(z.mag, 8)) |-> 48 + BToBase(z.mag, 8)[i]]
WRatioL == N("{ratio ")  WStrftimeL == N("{strftime ")  WDiv0 == N("{div0}")
\* display form of a value (what ~a / display print)
Display(v) ==
  IF IsV(v, "str") THEN v.str
  ELSE IF IsV(v, "num") THEN NumToCp(v.num)
  ELSE IF IsV(v, "chr") THEN <<v.chr>>
  ELSE IF IsV(v, "bool") THEN (IF v.bool THEN N("#t") ELSE N("#f"))
  ELSE IF IsV(v, "sym") THEN v.sym
  ELSE IF IsV(v, "ratio") THEN WRatioL \o NumToCp(v.ratio[1]) \o <<cSLASH>> \o NumToCp(v.ratio[2]) \o <<cRC>>
  ELSE N("{object}")

\* Guile (format #f template args...): ~a ~d ~o ~f ~s(as ~a for strings w/o quotes not modelled) ~~ ~%
RECURSIVE FormatR(_, _, _, _)
FormatR(t, i, args, acc) ==
  IF i > Len(t) THEN (IF args = <<>> THEN VStr(acc) ELSE VErr("format: too many arguments"))
  ELSE IF t[i] # cTILDE THEN FormatR(t, i + 1, args, Append(acc, t[i]))
  ELSE IF i + 1 > Len(t) THEN VErr("format: truncated directive")
  ELSE LET c == ToLower(t[i + 1]) IN
    IF c = cTILDE THEN FormatR(t, i + 2, args, Append(acc, cTILDE))
    ELSE IF c = cPCT THEN FormatR(t, i + 2, args, Append(acc, cLF))
    ELSE IF c \in {97, 100, 111, 102} THEN     \* a d o f
       IF args = <<>> THEN VErr("format: missing argument")
       ELSE LET a == Head(args) IN
         IF IsBad(a) THEN a
         ELSE IF c = 97 THEN FormatR(t, i + 2, Tail(args), acc \o Display(a))
         ELSE IF c = 100 THEN (IF IsV(a, "num") THEN FormatR(t, i + 2, Tail(args), acc \o NumToCp(a.num))
                               ELSE FormatR(t, i + 2, Tail(args), acc \o Display(a)))
         ELSE IF c = 111 THEN (IF IsV(a, "num") THEN FormatR(t, i + 2, Tail(args), acc \o OctToCp(a.num))
                               ELSE VErr("format: ~o needs a number"))
         ELSE (IF IsV(a, "ratio") \/ IsV(a, "num") \/ a = VStr(WDiv0) THEN FormatR(t, i + 2, Tail(args), acc \o Display(a))
               ELSE VErr("format: ~f needs a number"))
    ELSE VErr("format: unsupported directive")

\* ---- the file context: a record of the file under evaluation ----
\* fields: name relpath abspath mount user group fid type (1 char) : cps
\*         mode uid gid ino nlink size blocks atime mtime ctime projid stripes stripesize mirrors : BigNat
\*         pools : <<cps>>   xattrs : << <<name, value>> >>   readable writable executable empty : BOOLEAN

XattrGet(f, name) ==
  LET hits == {i \in 1..Len(f.xattrs) : f.xattrs[i][1] = name}
  IN IF hits = {} THEN VBool(FALSE) ELSE VStr(f.xattrs[CHOOSE i \in hits : TRUE][2])

pAccessors == << <<N("size"), "size">>, <<N("mode"), "mode">>, <<N("uid"), "uid">>, <<N("gid"), "gid">>,
                 <<N("ino"), "ino">>, <<N("nlink"), "nlink">>, <<N("blocks"), "blocks">>, <<N("atime"), "atime">>,
                 <<N("mtime"), "mtime">>, <<N("ctime"), "ctime">>, <<N("projid"), "projid">>,
                 <<N("lov-stripe-count"), "stripes">>, <<N("lov-stripe-size"), "stripesize">>,
                 <<N("lov-mirror-count"), "mirrors">> >>
pStrAccessors == << <<N("name"), "name">>, <<N("absolute-path"), "abspath">>, <<N("relative-path"), "relpath">>,
                    <<N("user"), "user">>, <<N("group"), "group">>, <<N("file-fid"), "fid">>,
                    <<N("lipe-scan-client-mount-path"), "mount">>, <<N("type"), "type">> >>
pBoolAccessors == << <<N("empty"), "empty">>, <<N("executable"), "executable">>, <<N("readable"), "readable">>,
                     <<N("writable"), "writable">> >>
TableGet(tbl, name) ==
  LET hits == {i \in 1..Len(tbl) : tbl[i][1] = name} IN IF hits = {} THEN "" ELSE tbl[CHOOSE i \in hits : TRUE][2]

nDisplay == N("display")  nString == N("string")  nFormat == N("format")  nNot == N("not")
nMakeMutex == N("make-mutex")  nCurOut == N("current-output-port")  nOpenFile == N("open-file")  nClosePort == N("close-port")
nMakePrinter == N("make-printer")  nCallName == N("call-with-name")  nCallRel == N("call-with-relative-path")
nStreq == N("streq?")  nStreqCi == N("streq-ci?")  nFnmatch == N("fnmatch?")  nFnmatchCi == N("fnmatch-ci?")
nMember == N("member")  nEqualP == N("equal?")  nLogand == N("logand")  nQuotient == N("quotient")
nPlus == N("+")  nMinus == N("-")  nTimes == N("*")  nDiv == N("/")  nEq == N("=")  nLt == N("<")  nGt == N(">")  nLe == N("<=")  nGe == N(">=")
nRoundUp == N("round-up-power-of-2")  nLovPools == N("lov-pools")  nXattrP == N("xattr?")  nXattrRef == N("xattr-ref-string")
nXattrMatch == N("xattr-match?")  nPrintRel == N("print-relative-path")  nPrintFid == N("print-file-fid")
nScanBreak == N("lipe-scan-break")  nTypeChar == N("type->char")  nStrftime == N("strftime")  nLocaltime == N("localtime")
nDirname == N("dirname")  nLipeScan == N("lipe-scan")  nMountPath == N("lipe-getopt-client-mount-path")
nReqAttrs == N("lipe-getopt-required-attrs")  nThreadCount == N("lipe-getopt-thread-count")  nUseModules == N("use-modules")
nStringAppend == N("string-append")  nNewline == N("newline")  nList == N("list")

ZeroArgFile == {pAccessors[i][1] : i \in 1..Len(pAccessors)} \cup {pStrAccessors[i][1] : i \in 1..Len(pStrAccessors)}
               \cup {pBoolAccessors[i][1] : i \in 1..Len(pBoolAccessors)} \cup {nLovPools}
KnownPrims == ZeroArgFile \cup
  {nDisplay, nString, nFormat, nNot, nMakeMutex, nCurOut, nOpenFile, nClosePort, nMakePrinter, nCallName, nCallRel,
   nStreq, nStreqCi, nFnmatch, nFnmatchCi, nMember, nEqualP, nLogand, nQuotient, nPlus, nMinus, nTimes, nDiv, nEq, nLt, nGt,
   nLe, nGe, nRoundUp, nXattrP, nXattrRef, nXattrMatch, nPrintRel, nPrintFid, nScanBreak, nTypeChar, nStrftime,
   nLocaltime, nDirname, nLipeScan, nMountPath, nReqAttrs, nThreadCount, nStringAppend, nNewline, nList, nDynWind}

WDefaultThreads == N("{default-thread-count}")
WMountOpt == N("{client-mount-path}")
WReqAttrs == N("{required-attrs}")

AllNums(args) == \A i \in 1..Len(args) : IsV(args[i], "num")
FirstBad(args) == LET bad == {i \in 1..Len(args) : IsBad(args[i])} IN
                  IF bad = {} THEN [bad |-> FALSE] ELSE [bad |-> TRUE, v |-> args[CHOOSE i \in bad : \A j \in bad : i <= j]]

\* value equality in the sense of equal? (same variant, same payload)
VEqual(a, b) == DOMAIN a = DOMAIN b /\ a = b

RECURSIVE Eval(_, _, _, _), EvalSeq(_, _, _, _, _), EvalArgs(_, _, _, _, _, _), Apply(_, _, _, _),
          EvalLetStar(_, _, _, _, _), EvalAnd(_, _, _, _, _, _), EvalOr(_, _, _, _, _)

\* ---- primitive application (args already evaluated, no bad values among them) ----
PrimApply(name, args, cx, k) ==
  LET f == cx.file
      n == Len(args)
      acc == TableGet(pAccessors, name)
      sacc == TableGet(pStrAccessors, name)
      bacc == TableGet(pBoolAccessors, name)
  IN
  IF acc # "" THEN (IF n = 0 THEN R(VNat(f[acc]), <<>>, k) ELSE R(VErr("wrong number of arguments"), <<>>, k))
  ELSE IF sacc # "" THEN (IF n = 0 THEN R(VStr(f[sacc]), <<>>, k) ELSE R(VErr("wrong number of arguments"), <<>>, k))
  ELSE IF bacc # "" THEN (IF n = 0 THEN R(VBool(f[bacc]), <<>>, k) ELSE R(VErr("wrong number of arguments"), <<>>, k))
  ELSE IF name = nLovPools THEN R([lst |-> [i \in 1..Len(f.pools) |-> VStr(f.pools[i])]], <<>>, k)
  ELSE IF name = nNot THEN R(VBool(~Truthy(args[1])), <<>>, k)
  ELSE IF name \in {nEq, nLt, nGt, nLe, nGe} THEN
     IF n < 1 \/ ~AllNums(args) THEN R(VErr("comparison of non-numbers"), <<>>, k)
     ELSE R(VBool(\A j \in 1..(n - 1) :
                    LET c == ZCmp(args[j].num, args[j + 1].num) IN
                    IF name = nEq THEN c = 0 ELSE IF name = nLt THEN c < 0 ELSE IF name = nGt THEN c > 0
                    ELSE IF name = nLe THEN c <= 0 ELSE c >= 0), <<>>, k)
  ELSE IF name = nPlus THEN
     IF ~AllNums(args) THEN R(VErr("+ of non-numbers"), <<>>, k)
     ELSE LET RECURSIVE S(_, _)  S(i, a) == IF i > n THEN a ELSE S(i + 1, ZAdd(a, args[i].num)) IN R(VNum(S(1, ZInt(0))), <<>>, k)
  ELSE IF name = nTimes THEN
     IF ~AllNums(args) THEN R(VErr("* of non-numbers"), <<>>, k)
     ELSE LET RECURSIVE P(_, _)  P(i, a) == IF i > n THEN a ELSE P(i + 1, ZMul(a, args[i].num)) IN R(VNum(P(1, ZInt(1))), <<>>, k)
  ELSE IF name = nMinus THEN
     IF n = 0 \/ ~AllNums(args) THEN R(VErr("- of non-numbers"), <<>>, k)
     ELSE IF n = 1 THEN R(VNum(ZNeg(args[1].num)), <<>>, k)
     ELSE LET RECURSIVE S(_, _)  S(i, a) == IF i > n THEN a ELSE S(i + 1, ZSub(a, args[i].num)) IN R(VNum(S(2, args[1].num)), <<>>, k)
  ELSE IF name = nQuotient THEN
     IF n # 2 \/ ~AllNums(args) THEN R(VErr("quotient of non-numbers"), <<>>, k)
     ELSE IF BIsZero(args[2].num.mag) THEN R(VErr("division by zero"), <<>>, k)
     ELSE R(VNum(ZQuot(args[1].num, args[2].num)), <<>>, k)
  ELSE IF name = nDiv THEN
     IF n # 2 \/ ~AllNums(args) THEN R(VErr("/ of non-numbers"), <<>>, k)
     ELSE IF BIsZero(args[2].num.mag) THEN R(VStr(WDiv0), <<>>, k)      \* find: "value printed is undefined"
     ELSE R([ratio |-> <<args[1].num, args[2].num>>], <<>>, k)
  ELSE IF name = nLogand THEN
     IF ~AllNums(args) \/ \E i \in 1..n : args[i].num.neg THEN R(VErr("logand of non-naturals"), <<>>, k)
     ELSE LET RECURSIVE A(_, _)  A(i, a) == IF i > n THEN a ELSE A(i + 1, BAnd(a, args[i].num.mag))
          IN IF n = 0 THEN R(VNum(ZInt(-1)), <<>>, k) ELSE R(VNat(A(2, args[1].num.mag)), <<>>, k)
  ELSE IF name = nRoundUp THEN
     \* ASSUMPTION: rounds x up to the next multiple of m
     IF n # 2 \/ ~AllNums(args) \/ BIsZero(args[2].num.mag) THEN R(VErr("round-up-power-of-2: bad arguments"), <<>>, k)
     ELSE LET x == args[1].num.mag  m == args[2].num.mag
              q == BDivMod(x, m)
          IN R(VNat(IF BIsZero(q[2]) THEN x ELSE BMul(BAdd(q[1], BOne), m)), <<>>, k)
  ELSE IF name \in {nStreq, nStreqCi, nFnmatch, nFnmatchCi} THEN
     IF n # 2 \/ ~IsV(args[1], "str") \/ ~IsV(args[2], "str") THEN R(VErr("string match on non-strings"), <<>>, k)
     ELSE LET p == args[1].str  s == args[2].str IN
          R(VBool(IF name = nStreq THEN p = s
                  ELSE IF name = nStreqCi THEN Eager(LowerSeq(p)) = Eager(LowerSeq(s))
                  ELSE IF name = nFnmatch THEN FnMatch(p, s) ELSE FnMatchCi(p, s)), <<>>, k)
  ELSE IF name = nEqualP THEN (IF n # 2 THEN R(VErr("equal?: arity"), <<>>, k) ELSE R(VBool(VEqual(args[1], args[2])), <<>>, k))
  ELSE IF name = nMember THEN
     IF n # 2 \/ ~IsV(args[2], "lst") THEN R(VErr("member: not a list"), <<>>, k)
     ELSE LET hits == {i \in 1..Len(args[2].lst) : VEqual(args[2].lst[i], args[1])} IN
          IF hits = {} THEN R(VBool(FALSE), <<>>, k)
          ELSE LET i == CHOOSE i \in hits : \A j \in hits : i <= j IN R([lst |-> SubSeq(args[2].lst, i, Len(args[2].lst))], <<>>, k)
  ELSE IF name = nList THEN R([lst |-> args], <<>>, k)
  ELSE IF name = nXattrP THEN
     IF n # 1 \/ ~IsV(args[1], "str") THEN R(VErr("xattr?: bad argument"), <<>>, k)
     ELSE R(VBool(IsV(XattrGet(f, args[1].str), "str")), <<>>, k)
  ELSE IF name = nXattrRef THEN
     IF n # 1 \/ ~IsV(args[1], "str") THEN R(VErr("xattr-ref-string: bad argument"), <<>>, k)
     ELSE R(XattrGet(f, args[1].str), <<>>, k)
  ELSE IF name = nXattrMatch THEN
     \* ASSUMPTION: some attribute whose name matches the first glob has a value matching the second
     IF n # 2 \/ ~IsV(args[1], "str") \/ ~IsV(args[2], "str") THEN R(VErr("xattr-match?: bad arguments"), <<>>, k)
     ELSE R(VBool(\E i \in 1..Len(f.xattrs) : FnMatch(args[1].str, f.xattrs[i][1]) /\ FnMatch(args[2].str, f.xattrs[i][2])), <<>>, k)
  ELSE IF name = nString THEN
     IF \E i \in 1..n : ~IsV(args[i], "chr") THEN R(VErr("string: not characters"), <<>>, k)
     ELSE R(VStr([i \in 1..n |-> args[i].chr]), <<>>, k)
  ELSE IF name = nStringAppend THEN
     IF \E i \in 1..n : ~IsV(args[i], "str") THEN R(VErr("string-append: not strings"), <<>>, k)
     ELSE R(VStr(Flatten([i \in 1..n |-> args[i].str])), <<>>, k)
  ELSE IF name = nFormat THEN
     IF n < 2 \/ ~IsV(args[2], "str") THEN R(VErr("format: bad arguments"), <<>>, k)
     ELSE IF ~(IsV(args[1], "bool") /\ ~args[1].bool) THEN R(VUnmod(N("format with a port")), <<>>, k)
     ELSE R(FormatR(args[2].str, 1, SubSeq(args, 3, n), <<>>), <<>>, k)
  ELSE IF name = nDisplay THEN
     \* ASSUMPTION: display is one atomic write to the port
     IF n # 2 \/ ~IsV(args[2], "port") THEN R(VErr("display: needs a value and a port"), <<>>, k)
     ELSE R(VUnspec, <<[e |-> "write", port |-> args[2].port, bytes |-> Eager(Display(args[1]))]>>, k)
  ELSE IF name = nNewline THEN
     IF n # 1 \/ ~IsV(args[1], "port") THEN R(VErr("newline: needs a port"), <<>>, k)
     ELSE R(VUnspec, <<[e |-> "write", port |-> args[1].port, bytes |-> <<cLF>>]>>, k)
  ELSE IF name = nMakeMutex THEN R([mutex |-> k], <<>>, k + 1)
  ELSE IF name = nCurOut THEN R([port |-> <<0>>], <<>>, k)
  ELSE IF name = nOpenFile THEN
     IF n # 2 \/ ~IsV(args[1], "str") THEN R(VErr("open-file: bad arguments"), <<>>, k)
     ELSE R([port |-> <<1, k>> \o args[1].str], <<[e |-> "open", port |-> <<1, k>> \o args[1].str, name |-> args[1].str]>>, k + 1)
  ELSE IF name = nClosePort THEN
     IF n # 1 \/ ~IsV(args[1], "port") THEN R(VErr("close-port: not a port"), <<>>, k)
     ELSE R(VUnspec, <<[e |-> "close", port |-> args[1].port]>>, k)
  ELSE IF name = nMakePrinter THEN
     IF n # 3 \/ ~IsV(args[1], "port") \/ ~IsV(args[2], "mutex") THEN R(VErr("make-printer: bad arguments"), <<>>, k)
     ELSE R([printer |-> [port |-> args[1].port, mutex |-> args[2].mutex, term |-> args[3]]], <<>>, k)
  ELSE IF name = nPrintRel THEN
     \* ASSUMPTION: writes the relative path and a newline directly to standard output, returns true
     R(VBool(TRUE), <<[e |-> "dwrite", bytes |-> f.relpath \o <<cLF>>]>>, k)
  ELSE IF name = nPrintFid THEN
     R(VBool(TRUE), <<[e |-> "dwrite", bytes |-> f.fid \o <<cLF>>]>>, k)
  ELSE IF name = nScanBreak THEN
     \* ASSUMPTION: records a request to stop the scan and returns true
     R(VBool(TRUE), <<[e |-> "stop"]>>, k)
  ELSE IF name = nTypeChar THEN
     IF n # 1 \/ ~IsV(args[1], "str") THEN R(VErr("type->char: bad argument"), <<>>, k) ELSE R(args[1], <<>>, k)
  ELSE IF name = nLocaltime THEN
     IF n # 1 \/ ~IsV(args[1], "num") THEN R(VErr("localtime: bad argument"), <<>>, k) ELSE R([tm |-> args[1].num], <<>>, k)
  ELSE IF name = nStrftime THEN
     IF n # 2 \/ ~IsV(args[1], "str") \/ ~IsV(args[2], "tm") THEN R(VErr("strftime: bad arguments"), <<>>, k)
     ELSE R(VStr(WStrftimeL \o args[1].str \o <<cSP>> \o NumToCp(args[2].tm) \o <<cRC>>), <<>>, k)
  ELSE IF name = nDirname THEN
     IF n # 1 \/ ~IsV(args[1], "str") THEN R(VErr("dirname: bad argument"), <<>>, k) ELSE R(VStr(Dirname(args[1].str)), <<>>, k)
  ELSE IF name = nMountPath THEN R(VStr(WMountOpt), <<>>, k)
  ELSE IF name = nReqAttrs THEN R(VStr(WReqAttrs), <<>>, k)
  ELSE IF name = nThreadCount THEN R(VStr(WDefaultThreads), <<>>, k)
  ELSE R(VUnmod(name), <<>>, k)

\* ---- application ----
Apply(fv, args, cx, k) ==
  IF IsV(fv, "clo") THEN
     IF Len(fv.clo.ps) # Len(args) THEN R(VErr("wrong number of arguments to procedure"), <<>>, k)
     ELSE LET env2 == [gn |-> fv.clo.gn, l |-> fv.clo.l \o [i \in 1..Len(args) |-> <<fv.clo.ps[i], args[i]>>]]
          IN EvalSeq(fv.clo.body, 1, env2, cx, k)
  ELSE IF IsV(fv, "printer") THEN
     \* ASSUMPTION: (printer s) = lock m; write s; [write terminator]; unlock m; returns true
     IF Len(args) # 1 THEN R(VErr("printer: arity"), <<>>, k)
     ELSE LET p == fv.printer
              t == IF IsV(p.term, "chr") THEN <<[e |-> "write", port |-> p.port, bytes |-> <<p.term.chr>>]>>
                   ELSE IF IsV(p.term, "str") THEN <<[e |-> "write", port |-> p.port, bytes |-> p.term.str]>>
                   ELSE <<>>
          IN R(VBool(TRUE), <<[e |-> "lock", m |-> p.mutex], [e |-> "write", port |-> p.port, bytes |-> Eager(Display(args[1]))]>>
                             \o t \o <<[e |-> "unlock", m |-> p.mutex]>>, k)
  ELSE IF IsV(fv, "prim") THEN
     IF fv.prim = nCallName THEN
        (IF Len(args) # 1 THEN R(VErr("call-with-name: arity"), <<>>, k) ELSE Apply(args[1], <<VStr(cx.file.name)>>, cx, k))
     ELSE IF fv.prim = nCallRel THEN
        (IF Len(args) # 1 THEN R(VErr("call-with-relative-path: arity"), <<>>, k) ELSE Apply(args[1], <<VStr(cx.file.relpath)>>, cx, k))
     ELSE IF fv.prim = nDynWind THEN
        IF Len(args) # 3 THEN R(VErr("dynamic-wind: arity"), <<>>, k)
        ELSE LET a == Apply(args[1], <<>>, cx, k) IN
             IF IsBad(a.v) THEN a
             ELSE LET b == Apply(args[2], <<>>, cx, a.k)
                      c == Apply(args[3], <<>>, cx, b.k)
                  IN IF IsBad(b.v) THEN R(b.v, a.fx \o b.fx \o c.fx, c.k)
                     ELSE IF IsBad(c.v) THEN R(c.v, a.fx \o b.fx \o c.fx, c.k)
                     ELSE R(b.v, a.fx \o b.fx \o c.fx, c.k)
     ELSE IF fv.prim = nLipeScan THEN
        \* the scan itself is driven by RunPolicy below; here it only records its arguments
        IF Len(args) # 5 THEN R(VErr("lipe-scan: arity"), <<>>, k)
        ELSE R(VUnspec, <<[e |-> "scan", mdt |-> args[1], mount |-> args[2], policy |-> args[3], attrs |-> args[4], threads |-> args[5]]>>, k)
     ELSE PrimApply(fv.prim, args, cx, k)
  ELSE IF IsBad(fv) THEN R(fv, <<>>, k)
  ELSE R(VErr("wrong type to apply"), <<>>, k)

EvalArgs(ds, i, env, cx, k, acc) ==
  \* left to right; returns [vs, fx, k] or the first bad value
  IF i > Len(ds) THEN [vs |-> acc.vs, fx |-> acc.fx, k |-> k, bad |-> FALSE]
  ELSE LET r == Eval(ds[i], env, cx, k) IN
       IF IsBad(r.v) THEN [bad |-> TRUE, v |-> r.v, fx |-> acc.fx \o r.fx, k |-> r.k]
       ELSE EvalArgs(ds, i + 1, env, cx, r.k, [vs |-> Append(acc.vs, r.v), fx |-> acc.fx \o r.fx])

EvalSeq(ds, i, env, cx, k) ==
  IF ds = <<>> THEN R(VUnspec, <<>>, k)
  ELSE LET r == Eval(ds[i], env, cx, k) IN
       IF i = Len(ds) \/ IsBad(r.v) THEN r
       ELSE LET r2 == EvalSeq(ds, i + 1, env, cx, r.k) IN R(r2.v, r.fx \o r2.fx, r2.k)

EvalLetStar(bs, i, env, cx, k) ==
  \* returns [env, cx, fx, k, bad, v]; at program level the bindings extend the global environment
  IF i > Len(bs) THEN [env |-> env, cx |-> cx, fx |-> <<>>, k |-> k, bad |-> FALSE]
  ELSE LET b == bs[i] IN
       IF ~(IsList(b) /\ Len(b.list) = 2 /\ IsSym(b.list[1])) THEN [bad |-> TRUE, v |-> VErr("bad let* binding"), fx |-> <<>>, k |-> k]
       ELSE LET r == Eval(b.list[2], env, cx, k) IN
            IF IsBad(r.v) THEN [bad |-> TRUE, v |-> r.v, fx |-> r.fx, k |-> r.k]
            ELSE LET top == AtTopLevel(env, cx)
                     env2 == IF top THEN [env EXCEPT !.gn = env.gn + 1] ELSE BindLocal(env, b.list[1].sym, r.v)
                     cx2 == IF top THEN [cx EXCEPT !.g = Append(cx.g, <<b.list[1].sym, r.v>>)] ELSE cx
                     rest == EvalLetStar(bs, i + 1, env2, cx2, r.k)
                 IN [rest EXCEPT !.fx = r.fx \o rest.fx]

EvalAnd(ds, i, env, cx, k, last) ==
  IF i > Len(ds) THEN R(last, <<>>, k)
  ELSE LET r == Eval(ds[i], env, cx, k) IN
       IF IsBad(r.v) \/ ~Truthy(r.v) THEN r
       ELSE LET r2 == EvalAnd(ds, i + 1, env, cx, r.k, r.v) IN R(r2.v, r.fx \o r2.fx, r2.k)

EvalOr(ds, i, env, cx, k) ==
  IF i > Len(ds) THEN R(VBool(FALSE), <<>>, k)
  ELSE LET r == Eval(ds[i], env, cx, k) IN
       IF IsBad(r.v) \/ Truthy(r.v) THEN r
       ELSE LET r2 == EvalOr(ds, i + 1, env, cx, r.k) IN R(r2.v, r.fx \o r2.fx, r2.k)

Eval(d, env, cx, k) ==
  IF IsNum(d) \/ IsStr(d) \/ IsChr(d) \/ IsBool(d) THEN R(d, <<>>, k)
  ELSE IF IsSym(d) THEN
     LET b == EnvLookup(env, cx, d.sym) IN
     IF b.found THEN R(b.v, <<>>, k)
     ELSE IF d.sym \in KnownPrims \/ d.sym \in {nCallName, nCallRel} THEN R([prim |-> d.sym], <<>>, k)
     ELSE R(VUnmod(d.sym), <<>>, k)
  ELSE IF d.list = <<>> THEN R(VErr("empty application"), <<>>, k)
  ELSE LET h == d.list[1]
           n == Len(d.list)
           special == IsSym(h) /\ h.sym \in SpecialForms /\ ~EnvLookup(env, cx, h.sym).found
       IN
  IF special /\ h.sym = nQuote THEN
     (IF n = 2 /\ (IsSym(d.list[2]) \/ IsNum(d.list[2]) \/ IsStr(d.list[2])) THEN R(d.list[2], <<>>, k) ELSE R(VUnmod(N("quote of a list")), <<>>, k))
  ELSE IF special /\ h.sym = nIf THEN
     IF n < 3 \/ n > 4 THEN R(VErr("bad if"), <<>>, k)
     ELSE LET c == Eval(d.list[2], env, cx, k) IN
          IF IsBad(c.v) THEN c
          ELSE IF Truthy(c.v) THEN LET r == Eval(d.list[3], env, cx, c.k) IN R(r.v, c.fx \o r.fx, r.k)
          ELSE IF n = 4 THEN LET r == Eval(d.list[4], env, cx, c.k) IN R(r.v, c.fx \o r.fx, r.k)
          ELSE R(VUnspec, c.fx, c.k)
  ELSE IF special /\ h.sym \in {nWhen, nUnless} THEN
     IF n < 3 THEN R(VErr("bad when/unless"), <<>>, k)
     ELSE LET c == Eval(d.list[2], env, cx, k) IN
          IF IsBad(c.v) THEN c
          ELSE IF Truthy(c.v) = (h.sym = nWhen) THEN
               LET r == EvalSeq(SubSeq(d.list, 3, n), 1, env, cx, c.k) IN R(r.v, c.fx \o r.fx, r.k)
          ELSE R(VUnspec, c.fx, c.k)
  ELSE IF special /\ h.sym = nAnd THEN
     (IF n = 1 THEN R(VBool(TRUE), <<>>, k) ELSE EvalAnd(SubSeq(d.list, 2, n), 1, env, cx, k, VBool(TRUE)))
  ELSE IF special /\ h.sym = nOr THEN EvalOr(SubSeq(d.list, 2, n), 1, env, cx, k)
  ELSE IF special /\ h.sym = nBegin THEN EvalSeq(SubSeq(d.list, 2, n), 1, env, cx, k)
  ELSE IF special /\ h.sym = nLambda THEN
     IF n < 3 \/ ~IsList(d.list[2]) \/ \E i \in 1..Len(d.list[2].list) : ~IsSym(d.list[2].list[i])
     THEN R(VUnmod(N("lambda with a non-list formals")), <<>>, k)
     ELSE R([clo |-> [ps |-> [i \in 1..Len(d.list[2].list) |-> d.list[2].list[i].sym], body |-> SubSeq(d.list, 3, n), gn |-> env.gn, l |-> env.l]], <<>>, k)
  ELSE IF special /\ h.sym \in {nLetStar, nLet} THEN
     IF n < 3 \/ ~IsList(d.list[2]) THEN R(VUnmod(N("named let")), <<>>, k)
     ELSE IF h.sym = nLetStar THEN
        LET b == EvalLetStar(d.list[2].list, 1, env, cx, k) IN
        IF b.bad THEN R(b.v, b.fx, b.k)
        ELSE LET r == EvalSeq(SubSeq(d.list, 3, n), 1, b.env, b.cx, b.k) IN R(r.v, b.fx \o r.fx, r.k)
     ELSE
        \* let: all initialisers in the outer environment
        LET bs == d.list[2].list IN
        IF \E i \in 1..Len(bs) : ~(IsList(bs[i]) /\ Len(bs[i].list) = 2 /\ IsSym(bs[i].list[1])) THEN R(VErr("bad let binding"), <<>>, k)
        ELSE LET a == EvalArgs([i \in 1..Len(bs) |-> bs[i].list[2]], 1, env, cx, k, [vs |-> <<>>, fx |-> <<>>]) IN
             IF a.bad THEN R(a.v, a.fx, a.k)
             ELSE LET env2 == [env EXCEPT !.l = env.l \o [i \in 1..Len(bs) |-> <<bs[i].list[1].sym, a.vs[i]>>]]
                      r == EvalSeq(SubSeq(d.list, 3, n), 1, env2, cx, a.k)
                  IN R(r.v, a.fx \o r.fx, r.k)
  ELSE IF special /\ h.sym = nWithMutex THEN
     IF n < 3 THEN R(VErr("bad with-mutex"), <<>>, k)
     ELSE LET m == Eval(d.list[2], env, cx, k) IN
          IF IsBad(m.v) THEN m
          ELSE IF ~IsV(m.v, "mutex") THEN R(VErr("with-mutex: not a mutex"), m.fx, m.k)
          ELSE LET r == EvalSeq(SubSeq(d.list, 3, n), 1, env, cx, m.k)
               IN R(r.v, m.fx \o <<[e |-> "lock", m |-> m.v.mutex]>> \o r.fx \o <<[e |-> "unlock", m |-> m.v.mutex]>>, r.k)
  ELSE IF special /\ h.sym = nCond THEN R(VUnmod(N("cond")), <<>>, k)
  ELSE
     \* application: operator, then operands left to right
     LET f == Eval(h, env, cx, k) IN
     IF IsBad(f.v) THEN f
     ELSE LET a == EvalArgs(SubSeq(d.list, 2, n), 1, env, cx, f.k, [vs |-> <<>>, fx |-> <<>>]) IN
          IF a.bad THEN R(a.v, f.fx \o a.fx, a.k)
          ELSE LET r == Apply(f.v, a.vs, cx, a.k) IN R(r.v, f.fx \o a.fx \o r.fx, r.k)

(***************************************************************************)
(* Whole programs.  Prepare(text) reads the program, checks the two        *)
(* top-level forms, evaluates the let* bindings and the dynamic-wind up to  *)
(* the scan call (recorded as a "scan" effect holding the policy closure). *)
(* RunPolicy applies that closure to one file.                             *)
(***************************************************************************)
NoFile == [name |-> <<>>, relpath |-> <<>>, abspath |-> <<>>, mount |-> <<>>, user |-> <<>>, group |-> <<>>, fid |-> <<>>,
           type |-> <<>>, mode |-> BZero, uid |-> BZero, gid |-> BZero, ino |-> BZero, nlink |-> BZero, size |-> BZero,
           blocks |-> BZero, atime |-> BZero, mtime |-> BZero, ctime |-> BZero, projid |-> BZero, stripes |-> BZero,
           stripesize |-> BZero, mirrors |-> BZero, pools |-> <<>>, xattrs |-> <<>>, readable |-> FALSE, writable |-> FALSE,
           executable |-> FALSE, empty |-> FALSE]

\* the part of Prepare that follows reading: data = the two top-level forms
PrepareData(data) ==
  IF Len(data) # 2 THEN [ok |-> FALSE, why |-> "expected exactly two top-level forms", forms |-> Len(data)]
  ELSE IF ~HeadIs(data[1], nUseModules) \/ ~HeadIs(data[2], nLetStar)
       THEN [ok |-> FALSE, why |-> "top-level forms are not (use-modules ...) (let* ...)", forms |-> 2]
  ELSE LET cx0 == [file |-> NoFile, g |-> <<>>]
           r == Eval(data[2], EnvEmpty, cx0, 0)
           scans == SelectSeq(r.fx, LAMBDA e : e.e = "scan")
           \* the bindings alone: the global environment in which the policy runs, also used for
           \* classifying the resources the bindings create
           bs == IF Len(data[2].list) >= 2 /\ IsList(data[2].list[2]) THEN data[2].list[2].list ELSE <<>>
           b == EvalLetStar(bs, 1, EnvEmpty, cx0, 0)
       IN [ok |-> TRUE, data |-> data, v |-> r.v, fx |-> r.fx, scans |-> scans, forms |-> 2,
           env |-> IF b.bad THEN <<>> ELSE b.cx.g]

Prepare(text) ==
  LET rd == ReadAll(text) IN
  IF ~rd.ok THEN [ok |-> FALSE, why |-> "read error: " \o rd.why, forms |-> 0]
  ELSE PrepareData(rd.data)

\* one policy call on one file: [v, fx]
RunPolicy(prep, file) ==
  LET sc == prep.scans[1]
      r == Apply(sc.policy, <<>>, [file |-> file, g |-> prep.env], 1000)
  IN [v |-> r.v, fx |-> r.fx]

\* effects outside the scan (before: opening files; after: closing ports)
ScanIndex(prep) == CHOOSE i \in 1..Len(prep.fx) : prep.fx[i].e = "scan"
=============================================================================
