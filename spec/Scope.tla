-------------------------------- MODULE Scope --------------------------------
(***************************************************************************)
(* Binding analysis of the emitted program (property C11): in the          *)
(* top-level (let* (bindings) body)                                        *)
(*  - every name is bound exactly once,                                    *)
(*  - a binding's initialiser refers only to names bound EARLIER (let*     *)
(*    scope) or to parameters of a lambda enclosing the reference,         *)
(*  - no lambda parameter has the name of a let* binding or of an          *)
(*    enclosing lambda's parameter (nothing is captured or shadowed).      *)
(* Nothing here knows how generated names are spelt.                       *)
(***************************************************************************)
EXTENDS SchemeEval

LambdaParams(d) == IF IsList(d.list[2]) THEN {d.list[2].list[i].sym : i \in {j \in 1..Len(d.list[2].list) : IsSym(d.list[2].list[j])}} ELSE {}
IsLambda(d) == IsList(d) /\ Len(d.list) >= 3 /\ SymIs(d.list[1], nLambda)

\* free symbol occurrences of d given the parameters of enclosing lambdas
RECURSIVE FreeSyms(_, _)
FreeSyms(d, params) ==
  IF IsSym(d) THEN (IF d.sym \in params THEN {} ELSE {d.sym})
  ELSE IF ~IsList(d) \/ d.list = <<>> THEN {}
  ELSE IF IsLambda(d) THEN UNION {FreeSyms(d.list[i], params \cup LambdaParams(d)) : i \in 3..Len(d.list)}
  ELSE IF SymIs(d.list[1], nQuote) THEN {}
  ELSE UNION {FreeSyms(d.list[i], params) : i \in 1..Len(d.list)}

\* all lambda parameter lists with the set of names visible where the lambda stands
RECURSIVE Shadowing(_, _)
Shadowing(d, visible) ==
  IF ~IsList(d) \/ d.list = <<>> THEN FALSE
  ELSE IF IsLambda(d) THEN
     LET ps == LambdaParams(d) IN
     (ps \cap visible # {}) \/ \E i \in 3..Len(d.list) : Shadowing(d.list[i], visible \cup ps)
  ELSE \E i \in 1..Len(d.list) : Shadowing(d.list[i], visible)

\* a symbol without its trailing decimal digits
RECURSIVE Stem(_)
Stem(s) == IF Len(s) > 0 /\ IsDigit(s[Len(s)]) THEN Stem(SubSeq(s, 1, Len(s) - 1)) ELSE s

ScopeKinds(letstar) ==
  IF ~(HeadIs(letstar, nLetStar) /\ Len(letstar.list) >= 3 /\ IsList(letstar.list[2])) THEN <<"not-a-let*">>
  ELSE LET bs == letstar.list[2].list
           wf == \A i \in 1..Len(bs) : IsList(bs[i]) /\ Len(bs[i].list) = 2 /\ IsSym(bs[i].list[1])
       IN IF ~wf THEN <<"bad-binding">>
          ELSE LET names == [i \in 1..Len(bs) |-> bs[i].list[1].sym]
                   nameSet == {names[i] : i \in 1..Len(bs)}
                   body == SubSeq(letstar.list, 3, Len(letstar.list))
               IN (IF \E i, j \in 1..Len(bs) : i # j /\ names[i] = names[j] THEN <<"name-bound-twice">> ELSE <<>>)
                  \o (IF \E i \in 1..Len(bs) : \E s \in FreeSyms(bs[i].list[2], {}) :
                            s \in nameSet /\ ~(\E j \in 1..(i - 1) : names[j] = s)
                      THEN <<"use-before-binding">> ELSE <<>>)
                  \o (IF (\E i \in 1..Len(bs) : Shadowing(bs[i].list[2], nameSet)) \/ (\E i \in 1..Len(body) : Shadowing(body[i], nameSet))
                      THEN <<"captured-by-lambda">> ELSE <<>>)
                  \* a free name that is bound NOWHERE but differs from a bound name only in its trailing number is a
                  \* generated name whose binding is missing (seed C11-i: used as ...:30, bound as ...:31); a free name of
                  \* any other shape is a primitive of the runtime, not judged here
                  \o (LET stems == {Stem(n) : n \in {m \in nameSet : Stem(m) # m}}
                          free == UNION ({FreeSyms(bs[i].list[2], {}) : i \in 1..Len(bs)} \cup {FreeSyms(body[i], {}) : i \in 1..Len(body)})
                      IN IF \E s \in free : s \notin nameSet /\ Stem(s) # s /\ Stem(s) \in stems
                         THEN <<"use-without-binding">> ELSE <<>>)
=============================================================================
