------------------------------- MODULE MC_C18 -------------------------------
(***************************************************************************)
(* C18 generator machine: rejected inputs whose error must name things.    *)
(*  Mode "arg":  <<before, kw, bad, after>>                                 *)
(*     before 0..3 valid primaries, kw an argument-taking keyword, bad = 0 *)
(*     (argument missing at end of input), 1 (missing before ")"), or      *)
(*     2.. an argument word invalid from its first character; after 0..2   *)
(*     further primaries.                                                  *)
(*  Mode "unknown": <<base, pos, word>> an unknown word placed at each     *)
(*     position of a base expression.                                      *)
(* The specification yields the REQUIRED FACTS (keyword, offending word);  *)
(* the conformance step checks that the Display text contains them.        *)
(***************************************************************************)
EXTENDS ArgGen, Json
CONSTANTS Mode
VARIABLE vSeq

ArgKws == SelectSeq([k \in 1..Len(Vocab) |-> k], LAMBDA k : Vocab[k].args # <<>>)
Before == << <<>>, Cp("-true "), Cp("-name foo -uid 5 "), Cp("-type f ! -empty ( -print ) ") >>
After == << <<>>, Cp(" -print"), Cp(" -o -false -print") >>
UnknownWords == << Cp("foo"), Cp("-bar"), Cp("--name"), Cp("-NAME"), Cp("name"), Cp("-prin"), Cp("-type=f"), Cp("+1") >>
Bases == << <<Cp("-true")>>, <<Cp("-true"), Cp("-o"), Cp("-false")>>, <<Cp("("), Cp("-name x"), Cp(")"), Cp("-print")>>,
            <<Cp("!"), Cp("-uid +3"), Cp(","), Cp("-perm 644"), Cp("-a"), Cp("-print0")>> >>

Init == vSeq = <<>>
NBad(e) == 3 + Len(BadFromStart(e.args[Len(e.args)]))
Next ==
  IF Mode = "arg" THEN
    \/ Len(vSeq) = 0 /\ \E b \in 1..Len(Before) : vSeq' = <<b>>
    \/ Len(vSeq) = 1 /\ \E k \in 1..Len(ArgKws) : vSeq' = Append(vSeq, k)
    \/ Len(vSeq) = 2 /\ \E x \in 0..(NBad(Vocab[ArgKws[vSeq[2]]]) - 1), a \in 1..Len(After) : vSeq' = vSeq \o <<x, a>>
  ELSE
    \/ Len(vSeq) = 0 /\ \E b \in 1..Len(Bases) : vSeq' = <<b>>
    \/ Len(vSeq) = 1 /\ \E p \in 0..Len(Bases[vSeq[1]]), w \in 1..Len(UnknownWords) : vSeq' = vSeq \o <<p, w>>

TextArg ==
  LET e == Vocab[ArgKws[vSeq[2]]]
      lead == Flatten([k \in 1..(Len(e.args) - 1) |-> <<cSP>> \o OneMember(e.args[k])])
      x == vSeq[3]
      bads == BadFromStart(e.args[Len(e.args)])
  IN IF x = 0 THEN Before[vSeq[1]] \o e.kw \o lead                       \* end of input (after ignored)
     ELSE IF x = 1 THEN Before[vSeq[1]] \o <<cLP, cSP>> \o e.kw \o lead \o <<cSP, cRP>> \o After[vSeq[4]]
     ELSE IF x = 2 THEN Before[vSeq[1]] \o <<cLP, cSP>> \o e.kw \o lead \o <<cRP>> \o After[vSeq[4]]    \* ")" glued: still missing
     ELSE Before[vSeq[1]] \o e.kw \o lead \o <<cSP>> \o bads[x - 2] \o After[vSeq[4]]

TextUnknown ==
  LET b == Bases[vSeq[1]]
      p == vSeq[2]
      ws == SubSeq(b, 1, p) \o <<UnknownWords[vSeq[3]]>> \o SubSeq(b, p + 1, Len(b))
  IN Join(ws, <<cSP>>)

Full == (Mode = "arg" /\ Len(vSeq) = 4) \/ (Mode = "unknown" /\ Len(vSeq) = 3)
Text == IF Mode = "arg" THEN Eager(TextArg) ELSE Eager(TextUnknown)
EmitVector == Full => PrintT(ToJson([i |-> Text, e |-> ParseText(Text), tag |-> "C18"]))

\* LENGTH and WIDTH of the offending word: words of 30..300 characters, of one-, two-, three- and four-byte
\* characters at every alignment, as unknown word and as bad argument (a message that shortens, cuts or re-reads the
\* word must still quote the word)
Rep(c, n) == [i \in 1..n |-> c]
WordLens == {30, 40, 41, 63, 64, 65, 79, 80, 81, 100, 127, 128, 129, 200, 255, 256, 257, 300}
WideCh == {120, 233, 26085, 128512}
LongWords == {Rep(120, n) : n \in WordLens}
             \cup UNION {{Rep(120, pad) \o Rep(ch, n) : pad \in 0..3, n \in {14, 22, 27, 40, 70}} : ch \in WideCh \ {120}}
EmitLong ==
  (Mode = "arg" /\ vSeq = <<>>) =>
    \A w \in LongWords :
      \A txt \in {w, Cp("-true ") \o w, Cp("-uid ") \o w, Cp("-name a -o -size ") \o w \o Cp(" -print"), Cp("-perm ") \o w, Cp("( -type ") \o w \o Cp(" )"),
                   Cp("-threads ") \o w, Cp("-mtime ") \o w, Cp("/") \o w, Cp("-printf %z") \o w, Cp("-fprintf out %z,%p,") \o w \o Cp(" -print")} :
        PrintT(ToJson([i |-> txt, e |-> ParseText(txt), tag |-> "C18"]))
\* coverage sanity: every emitted case of mode "arg" with a bad word IS a rejection whose facts are
\* attributable (otherwise the check would be vacuous for that keyword)
InvAttributable ==
  (Mode = "arg" /\ Len(vSeq) = 4) =>
     LET r == ParseText(Text) IN r.st = "rej" /\ r.err.why = "arg" /\ r.err.fs
=============================================================================
