------------------------------- MODULE MC_C03 -------------------------------
(***************************************************************************)
(* C03 generator machine: after every argument-taking keyword, ALL         *)
(* argument strings up to MaxLen over a 14-symbol alphabet chosen per      *)
(* language to reach the conversions behind the parser (digits 0 7 8 9,    *)
(* + - , / = %, backslash, a unit letter, u, x).  The specification gives  *)
(* the verdict class where it defines one; the replay runs the WHOLE       *)
(* pipeline and reports any panic or timeout.                              *)
(***************************************************************************)
EXTENDS ArgGen, Json
CONSTANTS MaxLen
VARIABLE vSeq

Alpha == Cp("0789+-,/=%\\kux")
ArgKws == SelectSeq([k \in 1..Len(Vocab) |-> k], LAMBDA k : Vocab[k].args # <<>>)
Init == vSeq = <<>>
Next == \/ vSeq = <<>> /\ \E k \in 1..Len(ArgKws) : vSeq' = <<k>>
        \/ Len(vSeq) >= 1 /\ Len(vSeq) <= MaxLen /\ \E c \in 1..Len(Alpha) : vSeq' = Append(vSeq, c)
Text ==
  LET e == Vocab[ArgKws[vSeq[1]]]
      lead == Flatten([k \in 1..(Len(e.args) - 1) |-> <<cSP>> \o OneMember(e.args[k])])
  IN e.kw \o lead \o <<cSP>> \o [k \in 1..(Len(vSeq) - 1) |-> Alpha[vSeq[k + 1]]]
EmitVector == Len(vSeq) >= 2 => PrintT(ToJson([i |-> Eager(Text), e |-> ParseText(Eager(Text)), tag |-> "C03"]))
=============================================================================
