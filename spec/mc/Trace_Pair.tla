------------------------------ MODULE Trace_Pair ------------------------------
(***************************************************************************)
(* C17: the same inputs run by a debug build and a release build of the    *)
(* same harness.  Each record pairs the two observations {a, b} of one     *)
(* input.  The specification has no build-profile parameter: the two must  *)
(* be the same behaviour (parse result; compile outcome, error text,       *)
(* destination table and program up to the embedded epoch; panics too).    *)
(***************************************************************************)
EXTENDS Api, Json, IOUtils
CONSTANTS Stride
VARIABLE vIdx

Rec == ndJsonDeserialize(IOEnv.TRACE)
NRec == Len(Rec)

JudgePair(r) ==
  LET a == r.a  b == r.b IN
  IF a.i # b.i THEN <<"bad-pairing">>
  ELSE IF "obs" \in DOMAIN a /\ "obs" \in DOMAIN b THEN
     (IF a.obs.st = b.obs.st /\ (a.obs.st = "panic" \/ a.obs = b.obs) THEN <<>> ELSE <<"parse-differs-between-builds">>)
     \o (IF a.obs.st = "panic" \/ b.obs.st = "panic" THEN <<"panic-in-a-build">> ELSE <<>>)
  ELSE IF "c" \in DOMAIN a /\ "c" \in DOMAIN b THEN
     (IF a.t = b.t /\ a.o = b.o THEN <<>> ELSE <<"parse-differs-between-builds">>)
     \o (IF a.t = b.t THEN CompileDiffKinds(a.t, a.c, b.c) ELSE <<>>)
     \o (IF a.c.st = "panic" \/ b.c.st = "panic" THEN <<"panic-in-a-build">> ELSE <<>>)
  ELSE <<"parse-differs-between-builds">>

Init == vIdx \in 1..Stride
Next == vIdx + Stride <= NRec /\ vIdx' = vIdx + Stride
Emit == vIdx <= NRec => PrintT(ToJson([idx |-> vIdx, kinds |-> JudgePair(Rec[vIdx])]))
=============================================================================
