------------------------------ MODULE Trace_Sem ------------------------------
(***************************************************************************)
(* Implementation -> specification for the back end (translation           *)
(* validation).  Each record of the log is one execution of                *)
(*   compile(tree, options); scheme(path); io_map()                        *)
(* recorded at return: {"t": tree, "o": options, "c": {st, renders, iomaps, *)
(* t0, t1}}.  TLC reads the emitted text with SchemeRead, executes it with *)
(* SchemeEval on the files of DirectedFiles(tree) and compares with        *)
(* FindSem; it also checks the mode choice, the destination table, the     *)
(* scan-call arguments and the refusal of unsupported constructs.          *)
(* One line per record: {"idx", "kinds", "info"}; kinds = <<>>: accepted.   *)
(***************************************************************************)
EXTENDS Backend, Json, IOUtils
CONSTANTS Stride, MaxFiles, Static
VARIABLE vIdx

Rec == ndJsonDeserialize(IOEnv.TRACE)
NRec == Len(Rec)

\* ---- how an error may name an unsupported construct: variant name or keyword ----
NameTable == << <<"anewer", Cp("AccessNewer"), Cp("-anewer")>>, <<"cnewer", Cp("ChangeNewer"), Cp("-cnewer")>>,
                <<"mnewer", Cp("ModifyNewer"), Cp("-mnewer")>>, <<"fstype", Cp("FsType"), Cp("-fstype")>>,
                <<"group", Cp("Group"), Cp("-group")>>, <<"user", Cp("User"), Cp("-user")>>,
                <<"ilname", Cp("InsensitiveLinkName"), Cp("-ilname")>>, <<"lname", Cp("LinkName"), Cp("-lname")>>,
                <<"iregex", Cp("InsensitiveRegex"), Cp("-iregex")>>, <<"regex", Cp("Regex"), Cp("-regex")>>,
                <<"samefile", Cp("Samefile"), Cp("-samefile")>>, <<"nogroup", Cp("NoGroup"), Cp("-nogroup")>>,
                <<"nouser", Cp("NoUser"), Cp("-nouser")>>, <<"prune", Cp("Prune"), Cp("-prune")>>,
                <<"ls", Cp("List"), Cp("-ls")>>, <<"fls", Cp("FileList"), Cp("-fls")>>, <<"xdev", Cp("XDev"), Cp("-xdev")>> >>
FmtNameTable == << <<"d", Cp("Depth"), Cp("%d")>>, <<"D", Cp("DeviceNumber"), Cp("%D")>>, <<"F", Cp("FsType"), Cp("%F")>>,
                   <<"l", Cp("SymbolicTarget"), Cp("%l")>>, <<"M", Cp("PermissionsSymbolic"), Cp("%M")>>,
                   <<"Y", Cp("TypeSymlink"), Cp("%Y")>>, <<"Z", Cp("SecurityContext"), Cp("%Z")>> >>
NamesOfLeaf(n) ==
  IF n.k \in {"printf", "fprintf"} THEN
     UNION {{FmtNameTable[j][2], FmtNameTable[j][3]} :
              j \in {j \in 1..Len(FmtNameTable) : \E i \in 1..Len(n.f) : n.f[i].el = "fld" /\ n.f[i].f = FmtNameTable[j][1]
                                                                        /\ ~("c" \in DOMAIN n.f[i]) /\ ~("s" \in DOMAIN n.f[i])}}
  ELSE UNION {{NameTable[j][2], NameTable[j][3]} : j \in {j \in 1..Len(NameTable) : NameTable[j][1] = n.k}}
ErrorNames(msg, t) == \E n \in UnsupportedLeaves(t) : \E nm \in NamesOfLeaf(n) : Contains(msg, nm)

\* ---- the destination table ----
Target(dest, term) == <<dest, term>>
LeafTargets(n) ==
  CASE n.k = "print" -> {Target(StdOut, <<cLF>>)}
    [] n.k = "print0" -> {Target(StdOut, <<0>>)}
    [] n.k = "printf" -> {Target(StdOut, <<>>)}
    [] n.k = "fprint" -> {Target(n.s, <<cLF>>)}
    [] n.k = "fprint0" -> {Target(n.s, <<0>>)}
    [] n.k = "fprintf" -> {Target(n.s, <<>>)}
    [] OTHER -> {}
RequiredTargets(t) == UNION {LeafTargets(n) : n \in LeafNodes(t)}
EntryTarget(e) == Target(EntryDest(e), e.term)
\* file names that collide with the encoding of standard output cannot occur (a file name is non-empty)

IoMapKinds(t, iomap) ==
  LET es == iomap.entries
      ts == {EntryTarget(es[i]) : i \in 1..Len(es)}
      stdoutAsFile == \E i \in 1..Len(es) : es[i].dest = "file" /\ es[i].file = <<>>
  IN (IF \E i, j \in 1..Len(es) : i # j /\ EntryTarget(es[i]) = EntryTarget(es[j]) /\ es[i].dest = es[j].dest THEN <<"tag-sharing">> ELSE <<>>)
     \o (IF \E i, j \in 1..Len(es) : i # j /\ es[i].tag = es[j].tag THEN <<"tag-duplicate">> ELSE <<>>)
     \o (IF ts # RequiredTargets(t) \/ stdoutAsFile THEN <<"iomap-targets-wrong">> ELSE <<>>)

\* ---- user strings that must occur as string literals of the program (C04) ----
LeafUserStrings(n) ==
  IF n.k \in {"name", "iname", "path", "ipath", "pool", "xattr"} THEN {n.s}
  ELSE IF n.k = "xattr-match" THEN {n.s, n.s2}
  ELSE {}
UserStringKinds(t, data) ==
  LET lits == UNION {{Strings(data[i])[j] : j \in 1..Len(Strings(data[i]))} : i \in 1..Len(data)}
      want == UNION {LeafUserStrings(n) : n \in LeafNodes(t)}
  IN IF want \subseteq lits THEN <<>> ELSE <<"user-string-missing">>

\* ---- one file ----
AgreeKinds(t, prep, framed, iomap, f, now) ==
  LET run == RunPolicy(prep, f)
      sem == SemTop(t, f, now)
  IN IF IsV(run.v, "unmod") THEN <<"unmodelled">>
     ELSE IF IsV(run.v, "err") THEN <<"runtime-error">>
     ELSE LET fo == IF framed THEN FramedOuts(run.fx, iomap) ELSE [outs |-> PlainOuts(run.fx, 1, <<>>, <<>>), rest |-> <<>>, unknownTags |-> {}, writesElsewhere |-> FALSE]
              stop == \E i \in 1..Len(run.fx) : run.fx[i].e = "stop"
          IN (IF Truthy(run.v) # sem.truth THEN <<"truth-mismatch">> ELSE <<>>)
             \o (IF fo.outs # sem.outs THEN <<"outs-mismatch">> ELSE <<>>)
             \o (IF stop # sem.stop THEN <<"stop-mismatch">> ELSE <<>>)
             \o (IF fo.rest # <<>> THEN <<"frame-garbage">> ELSE <<>>)
             \o (IF fo.unknownTags # {} THEN <<"tag-unknown">> ELSE <<>>)
             \o (IF framed /\ fo.writesElsewhere THEN <<"framed-write-elsewhere">> ELSE <<>>)

RECURSIVE FirstDisagreement(_, _, _, _, _, _, _)
FirstDisagreement(t, prep, framed, iomap, files, i, now) ==
  IF i > Len(files) THEN [kinds |-> <<>>, file |-> 0]
  ELSE LET k == AgreeKinds(t, prep, framed, iomap, files[i], now) IN
       IF k # <<>> THEN [kinds |-> k, file |-> i] ELSE FirstDisagreement(t, prep, framed, iomap, files, i + 1, now)

ScanArgKinds(prep, o, path) ==
  LET sc == prep.scans[1] IN
  (IF IF o.threads = <<>> THEN sc.threads = VStr(WDefaultThreads) ELSE sc.threads = VNat(o.threads)
   THEN <<>> ELSE <<"threads-mismatch">>)
  \o (IF sc.mdt = VStr(path) THEN <<>> ELSE <<"mdt-mismatch">>)
  \o (IF IsV(sc.policy, "clo") /\ sc.policy.clo.ps = <<>> THEN <<>> ELSE <<"policy-not-a-thunk">>)

JudgeCompile(r) ==
  LET t == r.t
      c == r.c
      unsup == UnsupportedLeaves(t) # {}
      mayref == MayRefuseLeaves(t) # {}
  IN
  IF c.st = "panic" THEN [kinds |-> <<"compile-panic">>, info |-> "panic"]
  ELSE IF c.st = "err" THEN
     IF unsup THEN [kinds |-> IF ErrorNames(c.msg, t) THEN <<>> ELSE <<"error-does-not-name">>, info |-> "refused"]
     ELSE IF mayref THEN [kinds |-> <<>>, info |-> "refused \\c"]
     ELSE [kinds |-> <<"refused-supported">>, info |-> "refused"]
  ELSE IF unsup THEN [kinds |-> <<"accepted-unsupported">>, info |-> "compiled"]
  ELSE IF c.renders[1].st # "ok" THEN [kinds |-> <<"render-panic">>, info |-> "render"]
  ELSE IF "panic" \in DOMAIN c.iomaps[1] THEN [kinds |-> <<"iomap-panic">>, info |-> "iomap"]
  ELSE
    LET text == c.renders[1].text
        iomap == c.iomaps[1]
        framed == iomap.present
        prep == Prepare(text)
    IN
    IF ~prep.ok THEN [kinds |-> <<"malformed-program">>, info |-> prep.why]
    ELSE IF IsV(prep.v, "unmod") THEN [kinds |-> <<"unmodelled">>, info |-> "setup"]
    ELSE IF IsV(prep.v, "err") THEN [kinds |-> <<"runtime-error">>, info |-> prep.v.err]
    ELSE IF Len(prep.scans) # 1 THEN [kinds |-> <<"no-scan-call">>, info |-> "scans"]
    ELSE
      LET static == ScopeKinds(prep.data[2]) \o ResourceKinds(prep, WithImplicitPrint(t)) \o UserStringKinds(t, prep.data)
                    \o (IF framed # NeedsFramed(t) THEN <<"mode-mismatch">> ELSE <<>>)
                    \o (IF framed THEN IoMapKinds(t, iomap) ELSE <<>>)
                    \o ScanArgKinds(prep, r.o, c.renders[1].path)
          now0 == c.t0
          allFiles == DirectedFiles(WithImplicitPrint(t), now0)
          \* where find's meaning of a construct is not definite only the static checks apply
          files == IF Static \/ SemUnspecified(t) THEN <<>> ELSE IF Len(allFiles) > MaxFiles THEN SubSeq(allFiles, 1, MaxFiles) ELSE allFiles
          d0 == FirstDisagreement(t, prep, framed, iomap, files, 1, now0)
          d1 == IF d0.kinds = <<>> \/ c.t1 = c.t0 THEN d0 ELSE FirstDisagreement(t, prep, framed, iomap, files, 1, c.t1)
          d == IF d1.kinds = <<>> THEN d1 ELSE d0
      IN [kinds |-> static \o d.kinds, info |-> "files", nfiles |-> Len(files), file |-> d.file]

\* ---- C04: the same program with a benign marker in place of the user string ----
RECURSIVE ReplaceAll(_, _, _)
ReplaceAll(s, m, u) ==
  IF Len(s) < Len(m) THEN s
  ELSE IF SubSeq(s, 1, Len(m)) = m THEN u \o ReplaceAll(SubSeq(s, Len(m) + 1, Len(s)), m, u)
  ELSE <<s[1]>> \o ReplaceAll(Tail(s), m, u)
TildeDoubled(u) == Flatten([i \in 1..Len(u) |-> IF u[i] = cTILDE THEN <<cTILDE, cTILDE>> ELSE <<u[i]>>])
SkeletonKinds(r) ==
  IF r.c.st # "ok" \/ r.c0.st # "ok" THEN (IF r.c.st = r.c0.st THEN <<>> ELSE <<"hostile-string-changes-outcome">>)
  ELSE LET a == ReadAll(r.c.renders[1].text)
           b == ReadAll(r.c0.renders[1].text)
       IN IF ~a.ok THEN <<"malformed-program">>
          ELSE IF ~b.ok THEN <<"benign-program-malformed">>
          ELSE LET ska == [i \in 1..Len(a.data) |-> Skeleton(a.data[i])]
                   skb == [i \in 1..Len(b.data) |-> Skeleton(b.data[i])]
                   sa == Flatten([i \in 1..Len(a.data) |-> Strings(a.data[i])])
                   sb == Flatten([i \in 1..Len(b.data) |-> Strings(b.data[i])])
                   inTemplate == r.slot \in {"fmt-literal", "fmt-literal-mid", "fmt-no-newline", "fmt-ascii"}
                   u == IF inTemplate THEN TildeDoubled(r.u) ELSE r.u
               IN (IF Eager(ska) # Eager(skb) THEN <<"skeleton-differs">> ELSE <<>>)
                  \o (IF Len(sa) # Len(sb) THEN <<"string-count-differs">>
                      ELSE IF \A i \in 1..Len(sb) : sa[i] = ReplaceAll(sb[i], r.marker, u) THEN <<>>
                      ELSE <<"string-not-verbatim">>)
                  \* in framed mode a file name lives in the destination table, not in the program
                  \o (IF r.slot \in {"fprint-file", "fprintf-file"} \/ (\E i \in 1..Len(sb) : Contains(sb[i], r.marker))
                      THEN <<>> ELSE <<"marker-not-in-a-string">>)

JudgeAll(r) ==
  \* a text the specification REJECTS (an unknown word): reading and compiling it must fail, whatever the rest says
  IF "rej" \in DOMAIN r THEN [kinds |-> IF r.c.st = "ok" THEN <<"accepted-unsupported">> ELSE IF r.c.st = "panic" THEN <<"compile-panic">> ELSE <<>>,
                              info |-> "text the specification rejects", nfiles |-> 0, file |-> 0] ELSE
  LET j == JudgeCompile(r) IN
  IF "c0" \in DOMAIN r THEN [j EXCEPT !.kinds = j.kinds \o SkeletonKinds(r)] ELSE j

Init == vIdx \in 1..Stride
Next == vIdx + Stride <= NRec /\ vIdx' = vIdx + Stride
Emit == vIdx <= NRec => LET j == JudgeAll(Rec[vIdx]) IN PrintT(ToJson([idx |-> vIdx] @@ j))
=============================================================================
