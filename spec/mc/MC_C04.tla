------------------------------- MODULE MC_C04 -------------------------------
(***************************************************************************)
(* C04 generator machine: user strings over a hostile alphabet, placed in  *)
(* every string-carrying slot through the public constructors.             *)
(* State: a string (sequence of alphabet indices); Next appends a symbol.  *)
(* Every non-empty state emits, per slot, the tree holding the string, the *)
(* same tree holding the benign marker QZQ, and (for the device-path slot) *)
(* the paths to render with.  Trace_Sem then checks that the two programs  *)
(* have the same skeleton, that the string literals differ exactly where   *)
(* the marker stood and decode to the user string, and that execution      *)
(* agrees with find's rules (literal format text printed verbatim).        *)
(***************************************************************************)
EXTENDS Ast, Json
CONSTANTS MaxLen
VARIABLE vSeq

\* " \ ~ % ( ) ; # LF U+0001 e-acute a space * [ ' | tab, then characters beyond Latin-1 that a
\* "printable / blank" classification might treat specially: U+2028 LINE SEPARATOR, U+3000 IDEOGRAPHIC
\* SPACE, U+0085 NEL, U+1F600 (outside the BMP)
Alphabet == <<34, 92, 126, 37, 40, 41, 59, 35, 10, 1, 233, 97, 32, 42, 91, 39, 124, 9, 8232, 12288, 133, 128512>>
\* The benign stand-in.  The implementation legitimately chooses streq?/fnmatch? (and equal?/xattr-match?)
\* by whether the string holds a wildcard, so the stand-in is taken from the same class.
MarkerPlain == Cp("QZQ")
MarkerGlob == Cp("QZ*Q")
GlobClass(s) == \E i \in 1..Len(s) : s[i] \in {cSTAR, cQM, cLB, cSQ}
MarkerFor(slot, s) ==
  IF slot \in {"name", "iname", "path", "ipath"} /\ (\E i \in 1..Len(s) : s[i] \in {cSTAR, cQM, cLB}) THEN MarkerGlob
  ELSE IF slot \in {"xattr-match-1", "xattr-match-2"} /\ GlobClass(s) THEN MarkerGlob
  ELSE MarkerPlain
Init == vSeq = <<>>
Next == Len(vSeq) < MaxLen /\ \E c \in 1..Len(Alphabet) : vSeq' = Append(vSeq, c)
Str == Eager([k \in 1..Len(vSeq) |-> Alphabet[vSeq[k]]])

Nl == EEsc("n")
Slots == <<"name", "iname", "path", "ipath", "pool", "xattr", "xattr-match-1", "xattr-match-2", "fprint-file",
           "fprintf-file", "fmt-literal", "fmt-literal-mid", "fmt-xattr", "device-path", "fmt-no-newline">>
TreeFor(slot, s) ==
  CASE slot = "name" -> [k |-> "name", s |-> s]
    [] slot = "iname" -> [k |-> "iname", s |-> s]
    [] slot = "path" -> [k |-> "path", s |-> s]
    [] slot = "ipath" -> NAnd([k |-> "ipath", s |-> s], [k |-> "print0"])
    [] slot = "pool" -> [k |-> "pool", s |-> s]
    [] slot = "xattr" -> [k |-> "xattr", s |-> s]
    [] slot = "xattr-match-1" -> [k |-> "xattr-match", s |-> s, s2 |-> Cp("v")]
    [] slot = "xattr-match-2" -> [k |-> "xattr-match", s |-> Cp("n"), s2 |-> s]
    [] slot = "fprint-file" -> [k |-> "fprint", s |-> s]
    [] slot = "fprintf-file" -> [k |-> "fprintf", s |-> s, f |-> <<EFld("P"), Nl>>]
    [] slot = "fmt-literal" -> [k |-> "printf", f |-> <<ELit(s), Nl>>]
    [] slot = "fmt-literal-mid" -> [k |-> "printf", f |-> <<EFld("f"), ELit(s), EFld("s"), Nl>>]
    [] slot = "fmt-no-newline" -> [k |-> "printf", f |-> <<EFld("f"), ELit(s)>>]
    [] slot = "fmt-xattr" -> [k |-> "printf", f |-> <<EFldS("xattr", s), Nl>>]
    [] slot = "device-path" -> [k |-> "print"]

\* a literal format element must not contain % or \ (the parser never builds such a literal and the
\* segmentation invariant of C14 excludes it); those strings are not placed in the literal slots
LiteralOk(s) == ~HasChar(s, cPCT) /\ ~HasChar(s, cBSL)
SlotOk(slot, s) == IF slot \in {"fmt-literal", "fmt-literal-mid", "fmt-no-newline"} THEN LiteralOk(s) ELSE TRUE

EmitTree ==
  vSeq # <<>> =>
    \A i \in 1..Len(Slots) :
      LET slot == Slots[i] IN
      SlotOk(slot, Str) =>
        PrintT(ToJson([t |-> TreeFor(slot, Str), t0 |-> TreeFor(slot, MarkerFor(slot, Str)), o |-> OptsInit, slot |-> slot, u |-> Str,
                       marker |-> MarkerFor(slot, Str),
                       path |-> IF slot = "device-path" THEN Str ELSE Cp("/dev/mdt0"),
                       path0 |-> IF slot = "device-path" THEN MarkerPlain ELSE Cp("/dev/mdt0")]))

\* every "kind" of character once in every slot (after an ordinary letter): all of ASCII, the C1 controls and
\* representatives of the classes beyond (a range test written with the wrong bound shows on ONE character)
SingleCps == (1..159) \cup {160, 173, 255, 256, 304, 305, 768, 2047, 2048, 8203, 8232, 8233, 8238, 12288, 55295, 57344, 65279, 65533, 65535,
                            65536, 119070, 128512, 1114111}
EmitSingles ==
  vSeq = <<>> =>
    \A c \in SingleCps : \A i \in 1..Len(Slots) :
      LET slot == Slots[i]  s == <<97, c>> IN
      SlotOk(slot, s) =>
        PrintT(ToJson([t |-> TreeFor(slot, s), t0 |-> TreeFor(slot, MarkerFor(slot, s)), o |-> OptsInit, slot |-> slot, u |-> s,
                       marker |-> MarkerFor(slot, s),
                       path |-> IF slot = "device-path" THEN s ELSE Cp("/dev/mdt0"),
                       path0 |-> IF slot = "device-path" THEN MarkerPlain ELSE Cp("/dev/mdt0")]))

\* POSITION: a multi-byte character at every offset 0..70 and 120..135 of a longer string, followed later by a
\* character that needs escaping (a scan that counts bytes where it should count characters, or works in blocks of
\* 16/32/64/128 bytes, goes wrong at ONE alignment); two-, three- and four-byte characters
Rep(c, n) == [i \in 1..n |-> c]
Offsets == (0..70) \cup (120..135)
OffsetSlots == <<"name", "pool", "fprint-file", "fmt-literal-mid", "device-path", "xattr-match-2">>
EmitOffsets ==
  vSeq = <<>> =>
    \A k \in Offsets : \A ch \in {233, 26085, 128512} : \A i \in 1..Len(OffsetSlots) :
      (ch = 233 \/ k % 8 \in {5, 6, 7, 0, 1}) =>
      LET slot == OffsetSlots[i]
          s == Rep(97, k) \o <<ch>> \o Cp("b") \o (IF slot = "fmt-literal-mid" THEN Cp("~c") ELSE <<cDQ>> \o Cp("c"))
      IN PrintT(ToJson([t |-> TreeFor(slot, s), t0 |-> TreeFor(slot, MarkerFor(slot, s)), o |-> OptsInit, slot |-> slot, u |-> s,
                        marker |-> MarkerFor(slot, s),
                        path |-> IF slot = "device-path" THEN s ELSE Cp("/dev/mdt0"),
                        path0 |-> IF slot = "device-path" THEN MarkerPlain ELSE Cp("/dev/mdt0")]))
\* the same characters written as an OCTAL ESCAPE of a format (the element Ascii(n) of the public types): the
\* character must reach the output verbatim whatever it means to the string syntax or to `format`
AsciiCps == {c \in SingleCps : c <= 511} \cup {256, 305, 383, 511}
EmitAscii ==
  vSeq = <<>> =>
    \A c \in AsciiCps :
      PrintT(ToJson([t |-> [k |-> "printf", f |-> <<EFld("f"), EAscii(c), EFld("s"), Nl>>],
                     t0 |-> [k |-> "printf", f |-> <<EFld("f"), ELit(MarkerPlain), EFld("s"), Nl>>],
                     o |-> OptsInit, slot |-> "fmt-ascii", u |-> <<c>>, marker |-> MarkerPlain,
                     path |-> Cp("/dev/mdt0"), path0 |-> Cp("/dev/mdt0")]))
=============================================================================
