------------------------------- MODULE MC_Scan -------------------------------
(***************************************************************************)
(* C16: all interleavings of the scanner threads for recorded programs.    *)
(* The log (IOEnv.TRACE) holds compiled programs; vProg picks one, and the  *)
(* threads' step lists are extracted from its text by SchemeEval: thread t  *)
(* runs the policy on files "t<t>f<j>", j = 1..Calls.                      *)
(* Checked: no deadlock (Done stutters only when all finished), no release *)
(* of a mutex not held, at every terminal state the bytes on every port    *)
(* split into whole records (framed: complete frames, same multiset as     *)
(* emitted; plain: a concatenation of whole critical-section records), and *)
(* eventually every thread finishes (under weak fairness).                 *)
(***************************************************************************)
EXTENDS Scan, Json, IOUtils
CONSTANTS NThreads, Calls
VARIABLES vProg, vPc, vHeld, vOut

Rec == ndJsonDeserialize(IOEnv.TRACE)
NProg == Len(Rec)
Threads == 1..NThreads

FileOf(t, j) ==
  LET nm == <<116, 48 + t, 102, 48 + j>> IN
  [BaseFile(BFromInt(1700000000)) EXCEPT !.name = nm, !.relpath = Cp("d/") \o nm, !.abspath = Cp("/m/d/") \o nm]

Preps == SubSeq([p \in 1..NProg |-> Prepare(Rec[p].c.renders[1].text)], 1, NProg)
\* steps of thread t for program p: its policy calls one after the other
\* (forced into explicit tuples: a lazy [t \in .. |-> ..] would re-run the policy on every access)
StepsOf(p) ==
  SubSeq([t \in 1..NThreads |-> Flatten([j \in 1..Calls |-> RunPolicy(Preps[p], FileOf(t, j)).fx])], 1, NThreads)
StepTable == SubSeq([p \in 1..NProg |-> StepsOf(p)], 1, NProg)
MutexesOf(p) == UNION {{StepTable[p][t][i].m : i \in {i \in 1..Len(StepTable[p][t]) : StepTable[p][t][i].e \in {"lock", "unlock"}}} : t \in Threads}
Usable(p) == Preps[p].ok /\ Len(Preps[p].scans) = 1

vars == <<vProg, vPc, vHeld, vOut>>
Init == /\ vProg \in {p \in 1..NProg : Usable(p)}
        /\ ScanInit(StepTable[vProg], Threads, MutexesOf(vProg), vPc, vHeld, vOut)
AllDone == \A t \in Threads : Finished(StepTable[vProg], t, vPc)
ThreadStep(t) ==
  /\ vProg' = vProg
  /\ LET s == StepTable[vProg] IN
       \/ Acquire(s, t, vPc, vHeld, vOut, vPc', vHeld', vOut')
       \/ Release(s, t, vPc, vHeld, vOut, vPc', vHeld', vOut')
       \/ Write(s, t, vPc, vHeld, vOut, vPc', vHeld', vOut')
       \/ Skip(s, t, vPc, vHeld, vOut, vPc', vHeld', vOut')
Done == AllDone /\ UNCHANGED vars
Next == (\E t \in Threads : ThreadStep(t)) \/ Done
Spec == Init /\ [][Next]_vars /\ \A t \in Threads : WF_vars(ThreadStep(t))
Live == <>AllDone

\* ---- terminal-state properties ----
Framed(p) == Rec[p].c.iomaps[1].present
\* sequential reference: the records each thread emits, per port
SeqFrames(p) == Flatten([t \in Threads |-> Decode(StdStream(StepTable[p][t], 1), 1, <<>>).frames])
PlainRecords(p, t, port) ==
  LET outs == PlainOuts(StepTable[p][t], 1, <<>>, <<>>)
  IN SelectSeq(outs, LAMBDA o : o.dest = PortDest(port))
RecordBytes(rs) == [i \in 1..Len(rs) |-> rs[i].bytes]

InvNoBadRelease == ~BadRelease(StepTable[vProg], Threads, vPc, vHeld)
InvWholeRecords ==
  AllDone =>
    IF Framed(vProg) THEN
       LET d == Decode(PortBytes(vOut, <<0>>), 1, <<>>) IN
       /\ d.rest = <<>>
       /\ SameMultiset(d.frames, SeqFrames(vProg))
    ELSE
       \A port \in PortsOf(vOut) :
          /\ CanCut(PortBytes(vOut, port), [t \in Threads |-> Eager(RecordBytes(PlainRecords(vProg, t, port)))], Threads)
          \* plain mode carries no frames: a record is a LINE, so every record has to end in a newline
          /\ \A t \in Threads : \A i \in 1..Len(PlainRecords(vProg, t, port)) :
                LET b == PlainRecords(vProg, t, port)[i].bytes IN b # <<>> /\ b[Len(b)] = cLF
\* vacuity guard: the programs really print (checked in the initial states)
InvPrints == \A t \in Threads : \E i \in 1..Len(StepTable[vProg][t]) : StepTable[vProg][t][i].e \in {"write", "dwrite"}
=============================================================================
