------------------------------- MODULE MC_C13 -------------------------------
(***************************************************************************)
(* C13 generator machine: scan-wide options inserted at word boundaries.   *)
(* State <<base, p1, o1, p2, o2, ...>>: options o_i (index in Opts) are    *)
(* inserted before word p_i+1 of the base expression (p = 0: in front; p =  *)
(* Len: at the end), positions non-decreasing.  Lexer.tla gives the        *)
(* expected options (last occurrence wins), the expected tree (a leading   *)
(* run vanishes, any other option stands for -true) and marks inputs with  *)
(* -maxdepth/-mindepth as "may be rejected".                               *)
(***************************************************************************)
EXTENDS Front, Json
CONSTANTS MaxIns
VARIABLE vSeq

Bases == << <<>>,
            <<Cp("-print")>>,
            <<Cp("-name x"), Cp("-o"), Cp("-type f")>>,
            <<Cp("("), Cp("-true"), Cp(","), Cp("-false"), Cp(")"), Cp("-print0")>>,
            <<Cp("!"), Cp("-empty")>>,
            <<Cp("-uid 5"), Cp("-a"), Cp("("), Cp("!"), Cp("-name y"), Cp(")")>> >>
Opts == << Cp("-depth"), Cp("-threads 1"), Cp("-threads 4"), Cp("-threads 16"), Cp("-threads 0"),
           Cp("-threads 4294967295"), Cp("-maxdepth 2"), Cp("-mindepth 1") >>

Init == vSeq = <<>>
NIns == (Len(vSeq) - 1) \div 2
LastPos == IF Len(vSeq) < 3 THEN 0 ELSE vSeq[Len(vSeq) - 1]
Next ==
  \/ Len(vSeq) = 0 /\ \E b \in 1..Len(Bases) : vSeq' = <<b>>
  \/ /\ Len(vSeq) >= 1 /\ NIns < MaxIns
     /\ \E p \in LastPos..Len(Bases[vSeq[1]]), o \in 1..Len(Opts) : vSeq' = vSeq \o <<p, o>>

\* words of the input: base words with the options spliced in
RECURSIVE Splice(_, _, _)
Splice(base, k, ins) ==
  \* ins: remaining <<p, o, ...>>; k: number of base words already emitted
  IF ins # <<>> /\ ins[1] = k THEN <<Opts[ins[2]]>> \o Splice(base, k, SubSeq(ins, 3, Len(ins)))
  ELSE IF k < Len(base) THEN <<base[k + 1]>> \o Splice(base, k + 1, ins)
  ELSE <<>>
Text == Join(Splice(Bases[vSeq[1]], 0, Tail(vSeq)), <<cSP>>)

\* model-level statement of the property on the specification's own result
ThreadVals == << <<>>, <<1>>, <<4>>, <<1, 6>>, <<0>>, BMaxU32, <<>>, <<>> >>
RECURSIVE LastThreads(_, _)
LastThreads(ins, acc) == IF ins = <<>> THEN acc
                         ELSE LastThreads(SubSeq(ins, 3, Len(ins)), IF ins[2] \in 2..6 THEN ThreadVals[ins[2]] ELSE acc)
RECURSIVE AnyOpt(_, _)
AnyOpt(ins, S) == IF ins = <<>> THEN FALSE ELSE ins[2] \in S \/ AnyOpt(SubSeq(ins, 3, Len(ins)), S)
RECURSIVE NoOptionNode(_)
NoOptionNode(t) ==
  IF t.k \in {"and", "or", "list"} THEN NoOptionNode(t.l) /\ NoOptionNode(t.r)
  ELSE IF t.k = "not" THEN NoOptionNode(t.e)
  ELSE t.k \notin OptionKinds
InvOptions ==
  Len(vSeq) >= 1 =>
    LET r == ParseText(Eager(Text))  ins == Tail(vSeq) IN
    r.st = "ok" =>
      /\ r.o.threads = LastThreads(ins, <<>>)
      /\ r.o.depth = AnyOpt(ins, {1})
      /\ r.mayrej = AnyOpt(ins, {7, 8})
      /\ NoOptionNode(r.t)
      \* a leading run leaves the rest untouched
      /\ ((\A j \in 1..NIns : vSeq[2 * j] = 0) =>
            r.t = (LET b == ParseText(Join(Bases[vSeq[1]], <<cSP>>)) IN b.t))

\* each input also with blanks after the last word / around the whole (options are honoured "wherever
\* they stand", also when nothing but blanks follows them)
EmitVector ==
  Len(vSeq) >= 1 =>
    LET t == Eager(Text) IN
    /\ PrintT(ToJson([i |-> t, e |-> ParseText(t), tag |-> "C13"]))
    /\ PrintT(ToJson([i |-> t \o <<cSP>>, e |-> ParseText(t \o <<cSP>>), tag |-> "C13"]))
    /\ PrintT(ToJson([i |-> <<cTAB>> \o t \o <<cLF>>, e |-> ParseText(<<cTAB>> \o t \o <<cLF>>), tag |-> "C13"]))
=============================================================================
