------------------------------ MODULE MC_C01T ------------------------------
(***************************************************************************)
(* C01, inverse direction: every tree, printed with any choice of          *)
(* redundant parentheses and either spelling of AND, is a sentence and     *)
(* parses back to exactly that tree (acceptance + uniqueness).             *)
(* State: a tree grown by wrapping; paren choice is explored per state.    *)
(***************************************************************************)
EXTENDS Front, Json
CONSTANTS MaxSize
VARIABLE vTree

P1 == [k |-> "true"]
P2 == [k |-> "name", s |-> Cp("x")]
P3 == [k |-> "print"]
Leaf == {P1, P2, P3}
T1 == Leaf \cup {NNot(a) : a \in Leaf} \cup {NAnd(a, b) : a, b \in Leaf} \cup {NOr(a, b) : a, b \in Leaf}
            \cup {NList(a, b) : a, b \in Leaf}

RECURSIVE Size(_)
Size(x) == IF x.k \in {"and", "or", "list"} THEN 1 + Size(x.l) + Size(x.r)
           ELSE IF x.k = "not" THEN 1 + Size(x.e) ELSE 1

Init == vTree \in Leaf
Next == /\ Size(vTree) < MaxSize
        /\ \/ vTree' = NNot(vTree)
           \/ \E x \in T1 : vTree' \in {NAnd(vTree, x), NAnd(x, vTree), NOr(vTree, x), NOr(x, vTree),
                                          NList(vTree, x), NList(x, vTree)}

\* print with redundant parentheses: bit b of `mask` decides whether the b-th operand
\* (numbered in pre-order) is wrapped although it would not need to be
RECURSIVE UnparseP(_, _, _)
\* returns <<tokens, next operand number>>
UnparseP(x, mask, n) ==
  LET extra(i) == (mask \div (2 ^ (i % 12))) % 2 = 1
      W(r, need, i) == IF need \/ extra(i) THEN Paren(r) ELSE r
  IN
  IF x.k \in {"list", "or", "and"} THEN
     LET lv == Level(x)
         l == UnparseP(x.l, mask, n + 2)
         r == UnparseP(x.r, mask, l[2])
         opt == IF x.k = "list" THEN <<TokOp("comma")>> ELSE IF x.k = "or" THEN <<TokOp("or")>>
                ELSE IF extra(n + 7) THEN <<TokOp("and")>> ELSE <<>>
     IN << W(l[1], Level(x.l) < lv, n) \o opt \o W(r[1], Level(x.r) <= lv, n + 1), r[2] >>
  ELSE IF x.k = "not" THEN
     LET e == UnparseP(x.e, mask, n + 1)
     IN << <<TokOp("not")>> \o W(e[1], Level(x.e) < 3, n), e[2] >>
  ELSE << <<TokPrim(x)>>, n >>

Masks == {0, 1, 2, 3, 5, 6, 9, 21, 42, 85, 255, 1365, 2730, 4095}

InvRoundTrip == \A m \in Masks : LET ts == UnparseP(vTree, m, 0)[1] IN Decl(ts) = vTree /\ Climb(ts) = vTree

\* G: print the token sequence as text for the real parser
WTrue == Cp("-true")  WPrint == Cp("-print")  WName == Cp("-name x")  WLp == Cp("(")  WRp == Cp(")")
WNot == Cp("!")  WComma == Cp(",")  WAnd == Cp("-a")  WOr == Cp("-o")
TokText(tok) ==
  IF tok.tk = "prim" THEN
     (IF tok.node.k = "true" THEN WTrue ELSE IF tok.node.k = "print" THEN WPrint ELSE WName)
  ELSE IF tok.tk = "lp" THEN WLp ELSE IF tok.tk = "rp" THEN WRp
  ELSE IF tok.tk = "not" THEN WNot ELSE IF tok.tk = "comma" THEN WComma
  ELSE IF tok.tk = "and" THEN WAnd ELSE WOr
TextOf(ts) == Join([i \in 1..Len(ts) |-> TokText(ts[i])], <<cSP>>)
EmitVector ==
  \A m \in {0, 5, 42, 4095} :
     LET txt == TextOf(UnparseP(vTree, m, 0)[1])
     IN PrintT(ToJson([i |-> txt, e |-> [st |-> "ok", o |-> OptsInit, t |-> vTree, mayrej |-> FALSE]]))
=============================================================================
