----------------------------- MODULE MC_Options -----------------------------
(***************************************************************************)
(* The scan-wide options as a state machine of their own (public API:      *)
(* RunOptions::default() followed by any number of RunOptions::update(o)). *)
(* The parser drives exactly this machine with the options it meets        *)
(* (Lexer.tla: LeadingOption / RelocateOption); here it is driven directly *)
(* through the public types, so that what C13 promises of the returned     *)
(* options ("the value of the LAST occurrence of each") is a property of   *)
(* the update step itself and not only of the texts the parser was shown.  *)
(*                                                                         *)
(* State: vDepth (BOOLEAN), vThreads (<<>> = none given, else the count *)
(* as a digit sequence), vHist (the updates applied so far).                *)
(* One action per public call: Update(o).  -maxdepth/-mindepth are not in  *)
(* the domain of update (the parser refuses them before; calling update    *)
(* with them is left unspecified).                                         *)
(*                                                                         *)
(* Checked on the model:                                                   *)
(*   InvLast      threads = value of the last -threads of the history,     *)
(*                depth = some -depth in the history                       *)
(*   DepthSticks  [][vDepth => vDepth']_vars  (no update clears it)        *)
(*   OwnField     an update changes at most its own field                  *)
(* Emitted (EmitVector): every history up to MaxLen with the expected      *)
(* state AFTER EACH STEP; the replay applies the same updates to a real    *)
(* RunOptions and compares after each step.  The same module emits, in     *)
(* its initial state, the file-type table (FileType::octal against         *)
(* FindSem.TypeBits, the bits the emitted -type tests are compared with).  *)
(***************************************************************************)
EXTENDS FindSem, Json
CONSTANTS MaxLen
VARIABLES vDepth, vThreads, vHist
vars == <<vDepth, vThreads, vHist>>

\* thread counts that matter: 0, 1, a usual one, the two ends of 8/16/32-bit fields
Vals == << BZero, BOne, BFromInt(4), BFromInt(255), BFromInt(256), BFromInt(65535), BFromInt(65536), BMaxU32 >>
OptSet == {[k |-> "g_depth"]} \cup {[k |-> "g_threads", n |-> Vals[j]] : j \in 1..Len(Vals)}

Init == vDepth = FALSE /\ vThreads = <<>> /\ vHist = <<>>

Update(o) ==
  /\ Len(vHist) < MaxLen
  /\ vHist' = Append(vHist, o)
  /\ IF o.k = "g_depth" THEN vDepth' = TRUE /\ UNCHANGED vThreads
     ELSE vThreads' = o.n /\ UNCHANGED vDepth

Next == \E o \in OptSet : Update(o)
Spec == Init /\ [][Next]_vars

RECURSIVE LastThreadsOf(_)
LastThreadsOf(h) == IF h = <<>> THEN <<>>
                    ELSE IF h[Len(h)].k = "g_threads" THEN h[Len(h)].n ELSE LastThreadsOf(SubSeq(h, 1, Len(h) - 1))
InvLast ==
  /\ vThreads = LastThreadsOf(vHist)
  /\ vDepth = (\E j \in 1..Len(vHist) : vHist[j].k = "g_depth")

DepthSticks == [][vDepth => vDepth']_vars
OwnField == [][(vDepth' = vDepth) \/ (vThreads' = vThreads)]_vars

\* expected state after each prefix of the history (recomputed from the history, not from the state
\* variables, so that the replay is told the whole run in one vector)
StateAfter(h) == [depth |-> (\E j \in 1..Len(h) : h[j].k = "g_depth"), threads |-> LastThreadsOf(h)]
EmitVector ==
  Len(vHist) >= 1 =>
    PrintT(ToJson([opts |-> vHist, states |-> [j \in 1..Len(vHist) |-> StateAfter(SubSeq(vHist, 1, j))]]))

OptTypeLetters == <<"f", "d", "l", "b", "c", "p", "s">>
EmitTypes ==
  vHist = <<>> =>
    \A j \in 1..Len(OptTypeLetters) : PrintT(ToJson([ftype |-> OptTypeLetters[j], bits |-> TypeBits(OptTypeLetters[j])]))
\* the seven type codes are distinct, inside S_IFMT and disjoint from the twelve permission bits
InvTypes ==
  /\ \A a, b \in 1..7 : a # b => TypeBits(OptTypeLetters[a]) # TypeBits(OptTypeLetters[b])
  /\ \A a \in 1..7 : LET x == TypeBits(OptTypeLetters[a]) IN x % 4096 = 0 /\ x > 0 /\ x <= 61440
=============================================================================
