----------------------------- MODULE Trace_Parse -----------------------------
(***************************************************************************)
(* Implementation -> specification for the front end.  Each record of the  *)
(* ndjson log is one execution of parse() recorded at its return:          *)
(*   {"i": input code points, "obs": {"st": "ok"|"err"|"panic", ...}}      *)
(* TLC re-evaluates the specification on the input and judges the recorded *)
(* observation.  One line is printed per record: {"idx", "cls", "kinds"};  *)
(* kinds = <<>> means the observation is a behaviour the spec allows.      *)
(* Records are distributed over Stride initial states so that all workers  *)
(* validate in parallel.                                                   *)
(***************************************************************************)
EXTENDS Front, Json, IOUtils
CONSTANTS Stride
VARIABLE vIdx

Rec == ndJsonDeserialize(IOEnv.TRACE)
N == Len(Rec)

cBT == 96
RECURSIVE BtPositions(_, _)
BtPositions(m, k) == IF k > Len(m) THEN <<>> ELSE IF m[k] = cBT THEN <<k>> \o BtPositions(m, k + 1) ELSE BtPositions(m, k + 1)
\* every back-quoted fragment of the message occurs in the input
QuotesOnlyInput(msg, input) ==
  LET ps == BtPositions(msg, 1) IN
  \A j \in 1..(Len(ps) \div 2) :
     LET a == ps[2 * j - 1]  b == ps[2 * j] IN Contains(input, SubSeq(msg, a + 1, b - 1))

ErrTextKinds(input, err, msg) ==
  LET attributable == (err.why = "arg" /\ err.fs) \/ err.why = "unknown" IN
  (IF msg = <<>> THEN <<"errtext-empty">> ELSE <<>>)
  \o (IF attributable /\ err.why = "arg" /\ ~Contains(msg, err.kw) THEN <<"errtext-keyword">> ELSE <<>>)
  \o (IF attributable /\ ~HasChar(err.w, cBT) /\ ~Contains(msg, <<cBT>> \o err.w \o <<cBT>>)
      THEN <<"errtext-word">> ELSE <<>>)
  \o (IF ~HasChar(input, cBT) /\ ~QuotesOnlyInput(msg, input) THEN <<"errtext-foreign-quote">> ELSE <<>>)

\* whatever the spelling, and whether or not the specification defines its meaning: a tree that is RETURNED
\* holds no scan-wide option (C13), and a panic is never an answer (C03)
RECURSIVE HasOptionNode(_)
HasOptionNode(t) ==
  IF t.k \in {"and", "or", "list"} THEN HasOptionNode(t.l) \/ HasOptionNode(t.r)
  ELSE IF t.k \in {"not", "prec"} THEN HasOptionNode(t.e)
  ELSE t.k \in {"g_depth", "g_threads", "g_maxdepth", "g_mindepth"}
Judge(r) ==
  LET e == ParseText(r.i)
      obs == r.obs
  IN
  IF obs.st = "ok" /\ HasOptionNode(obs.t) THEN [cls |-> e.st, kinds |-> <<"option-in-tree">>]
  ELSE IF e.st = "unspec" THEN [cls |-> "unspec", kinds |-> IF obs.st = "panic" THEN <<"panic">> ELSE <<>>]
  ELSE IF obs.st = "panic" THEN [cls |-> e.st, kinds |-> <<"panic">>]
  ELSE IF e.st = "ok" THEN
     IF obs.st = "ok" THEN
        [cls |-> "ok", kinds |-> (IF obs.t = e.t THEN <<>> ELSE <<"tree-mismatch">>)
                                  \o (IF obs.o = e.o THEN <<>> ELSE <<"opts-mismatch">>)]
     ELSE [cls |-> "ok", kinds |-> IF e.mayrej THEN <<>> ELSE <<"rejected-valid">>]
  ELSE
     IF obs.st = "ok" THEN [cls |-> "rej", kinds |-> <<"accepted-invalid">>]
     ELSE [cls |-> "rej", kinds |-> ErrTextKinds(r.i, e.err, obs.msg)]

Init == vIdx \in 1..Stride
Next == vIdx + Stride <= N /\ vIdx' = vIdx + Stride
Emit == vIdx <= N => LET j == Judge(Rec[vIdx]) IN PrintT(ToJson([idx |-> vIdx, cls |-> j.cls, kinds |-> j.kinds]))
=============================================================================
