------------------------------ MODULE MC_Codegen ------------------------------
(***************************************************************************)
(* Model-level checks of the DESIGN (no implementation involved): for      *)
(* every tree of a family the specification's own Compile produces a       *)
(* program which, run by the runtime model on the directed files,          *)
(*   - agrees with find's rules (C02), adds the implicit print iff no      *)
(*     action occurs (C09), routes every frame through the table (C10),    *)
(*   - binds every name once and before use, creates one resource per      *)
(*     distinct request (C11), refuses exactly the unsupported trees (C12) *)
(* This shows the oracle modules (FindSem, SchemeEval, Backend, Manager)   *)
(* are mutually consistent, so a disagreement found by Trace_Sem on the    *)
(* real program is attributable to the code.                               *)
(***************************************************************************)
EXTENDS Codegen, ArgGen, Json
CONSTANTS Family, MaxSize
VARIABLE vTree

\* (the tree families are those of MC_Trees; repeated here to keep MC_Trees free of the back-end modules)
RECURSIVE TreesOfSize(_, _)
TreesOfSize(L, n) ==
  IF n = 1 THEN L
  ELSE {NNot(a) : a \in TreesOfSize(L, n - 1)}
       \cup UNION { {NAnd(a, b) : a \in TreesOfSize(L, i), b \in TreesOfSize(L, n - 1 - i)}
                    \cup {NOr(a, b) : a \in TreesOfSize(L, i), b \in TreesOfSize(L, n - 1 - i)}
                    \cup {NList(a, b) : a \in TreesOfSize(L, i), b \in TreesOfSize(L, n - 1 - i)} : i \in 1..(n - 2) }
TreesUpTo(L, n) == UNION {TreesOfSize(L, i) : i \in 1..n}
NlF == <<EFld("P"), EEsc("n")>>
L09 == { [k |-> "true"], [k |-> "false"], [k |-> "name", s |-> Cp("foo.txt")], [k |-> "print"], [k |-> "quit"],
         [k |-> "fprint", s |-> Cp("out.txt")] }
LMix == { [k |-> "true"], [k |-> "iname", s |-> Cp("*.TXT")], [k |-> "uid", cmp |-> "gt", n |-> <<5, 0, 0>>],
          [k |-> "size", cmp |-> "lt", n |-> <<8>>, u |-> "k"], [k |-> "mtime", cmp |-> "eq", n |-> <<1>>, u |-> "d"],
          [k |-> "perm", chk |-> "any", m |-> 146], [k |-> "type", ts |-> <<"f", "d">>], [k |-> "print0"],
          [k |-> "printf", f |-> <<EFld("f"), ELit(Cp(":~")), EFld("s"), EFld("m"), EFld("k"), EEsc("n")>>],
          [k |-> "fprintf", s |-> Cp("A"), f |-> <<EFld("P")>>], [k |-> "regex", s |-> Cp("x")] }
ParsedOk(txt) == LET r == ParseText(txt) IN IF r.st = "ok" THEN {r.t} ELSE {}
Singles == UNION { IF Vocab[k].args = <<>> THEN ParsedOk(Vocab[k].kw)
                   ELSE LET e == Vocab[k]
                            lead == Flatten([j \in 1..(Len(e.args) - 1) |-> <<cSP>> \o OneMember(e.args[j])])
                            ms == Members(e.args[Len(e.args)])
                        IN UNION {ParsedOk(e.kw \o lead \o <<cSP>> \o ms[j]) : j \in 1..Len(ms)}
                   : k \in {k \in 1..Len(Vocab) : Vocab[k].cls # "option"} }
Trees == CASE Family = "c09" -> TreesUpTo(L09, MaxSize) [] Family = "mix" -> TreesUpTo(LMix, MaxSize) [] Family = "single" -> Singles

Now == BFromInt(1700000000)
Opts0 == [depth |-> FALSE, threads |-> <<>>]
Init == vTree \in Trees
Next == FALSE /\ vTree' = vTree

Judge(t) ==
  LET c == Compile(t, Opts0, Cp("/dev/mdt0"), Now) IN
  IF c.st = "err" THEN (IF UnsupportedLeaves(t) # {} THEN <<>> ELSE <<"refused-supported">>)
  ELSE IF UnsupportedLeaves(t) # {} THEN <<"accepted-unsupported">>
  ELSE LET prep == PrepareData(c.data)
           framed == c.iomap.present
       IN IF ~prep.ok THEN <<"malformed-program">>
          ELSE IF IsBad(prep.v) THEN <<"setup-error">>
          ELSE IF SemUnspecified(t) THEN <<>>
          ELSE LET files == DirectedFiles(WithImplicitPrint(t), Now)
                   bad == {i \in 1..Len(files) :
                             LET run == RunPolicy(prep, files[i])
                                 sem == SemTop(t, files[i], Now)
                                 fo == IF framed THEN FramedOuts(run.fx, c.iomap)
                                       ELSE [outs |-> PlainOuts(run.fx, 1, <<>>, <<>>), rest |-> <<>>, unknownTags |-> {}]
                             IN IsBad(run.v) \/ Truthy(run.v) # sem.truth \/ fo.outs # sem.outs \/ fo.rest # <<>> \/ fo.unknownTags # {}
                                \/ (\E j \in 1..Len(run.fx) : run.fx[j].e = "stop") # sem.stop}
               IN (IF bad # {} THEN <<"disagrees-with-find">> ELSE <<>>)
                  \o ScopeKinds(c.data[2]) \o ResourceKinds(prep, WithImplicitPrint(t))
                  \o (IF framed # NeedsFramed(t) THEN <<"mode-mismatch">> ELSE <<>>)
                  \o (IF prep.scans[1].mdt # VStr(Cp("/dev/mdt0")) THEN <<"mdt-mismatch">> ELSE <<>>)
                  \o (IF MNamesUnique(c.mgr) /\ MDefBeforeUse(c.mgr) /\ MSharing(c.mgr) THEN <<>> ELSE <<"manager-invariant">>)

InvDesignValid == Judge(vTree) = <<>>
=============================================================================
