------------------------------- MODULE MC_C19 -------------------------------
(***************************************************************************)
(* C19 generator machine: trees built from ALL public constructors,        *)
(* including shapes the parser never returns (explicit precedence nodes,   *)
(* nested lists, option nodes, DefaultPrint, empty format lists).          *)
(* State: a tree; Next wraps it in a unary node or combines it with a tree *)
(* of the seed set on either side, up to MaxSize.                          *)
(* InvTwoDefs: recursive and node-set definitions of the helpers agree.    *)
(* EmitVector: constructor JSON + expected helper values for the replay    *)
(* into Expression::action() / complex_frames().                           *)
(* Mode "units": the unit tables and byte sizes.                           *)
(***************************************************************************)
EXTENDS Ast, Json
CONSTANTS MaxSize, Mode
VARIABLE vTree

FNl == <<EFld("p"), EEsc("n")>>
FNoNl == <<EFld("p"), ELit(Cp("x"))>>
FNlMid == <<EEsc("n"), EFld("s")>>
LeafSet == { [k |-> "true"], [k |-> "name", s |-> Cp("x")], [k |-> "print"], [k |-> "print0"],
             [k |-> "printf", f |-> FNl], [k |-> "printf", f |-> FNoNl], [k |-> "printf", f |-> <<>>],
             [k |-> "printf", f |-> FNlMid], [k |-> "printf", f |-> <<EFld("p"), EAscii(10)>>], [k |-> "printf", f |-> <<EFld("p"), EAscii(12)>>],
             [k |-> "printf", f |-> <<EFld("p"), EEsc("f")>>], [k |-> "printf", f |-> <<EFld("p"), EEsc("0")>>], [k |-> "printf", f |-> <<EEsc("n")>>],
             [k |-> "fprint", s |-> Cp("/dev/stdout")], [k |-> "fprintf", s |-> Cp("/dev/null"), f |-> FNl], [k |-> "fls", s |-> Cp("-")],
             [k |-> "fprint", s |-> Cp("o")], [k |-> "fprint0", s |-> Cp("o")], [k |-> "fprintf", s |-> Cp("o"), f |-> FNl],
             [k |-> "fls", s |-> Cp("o")], [k |-> "ls"], [k |-> "quit"], [k |-> "printfid"], [k |-> "prune"],
             [k |-> "defaultprint"], [k |-> "g_depth"], [k |-> "g_threads", n |-> <<4>>], [k |-> "xdev"],
             [k |-> "perm", chk |-> "eq", m |-> 420], [k |-> "size", cmp |-> "gt", n |-> <<1, 0>>, u |-> "k"] }
Seeds == LeafSet \cup {NNot(a) : a \in {[k |-> "print"], [k |-> "true"]}} \cup {NPrec([k |-> "print0"])}

\* ---- Mode "formats": every element list of length <= 3 over 7 element kinds (the public types also allow an
\* empty literal, adjacent literals, a newline that is not last), as -printf alone and under / beside other nodes
FmtElems == << EFld("p"), EEsc("n"), ELit(Cp("x")), ELit(<<>>), EAscii(10), EEsc("f"), EEsc("0") >>
RECURSIVE FmtLists(_)
FmtLists(n) == IF n = 0 THEN {<<>>} ELSE FmtLists(n - 1) \cup {Append(l, FmtElems[j]) : l \in FmtLists(n - 1), j \in 1..Len(FmtElems)}
FormatTrees == UNION {{ [k |-> "printf", f |-> l], NNot([k |-> "printf", f |-> l]),
                        NAnd([k |-> "true"], [k |-> "printf", f |-> l]), NOr([k |-> "printf", f |-> l], [k |-> "print"]),
                        NList([k |-> "printf", f |-> l], [k |-> "printf", f |-> FNl]) } : l \in FmtLists(3)}

Init == IF Mode = "trees" THEN vTree \in LeafSet ELSE IF Mode = "formats" THEN vTree \in FormatTrees ELSE vTree = [k |-> "units"]
Next ==
  /\ Mode = "trees"
  /\ TreeSize(vTree) < MaxSize
  /\ \/ vTree' = NNot(vTree)
     \/ vTree' = NPrec(vTree)
     \/ \E x \in Seeds : vTree' \in {NAnd(vTree, x), NAnd(x, vTree), NOr(vTree, x), NOr(x, vTree),
                                     NList(vTree, x), NList(x, vTree)}

InvTwoDefs ==
  Mode \in {"trees", "formats"} => /\ HasAction(vTree) = HasAction2(vTree)
                    /\ NeedsFramed(vTree) = NeedsFramed2(vTree)
                    \* needing framed output implies containing an action
                    /\ (NeedsFramed(vTree) => HasAction(vTree))

EmitVector ==
  Mode \in {"trees", "formats"} =>
    PrintT(ToJson([t |-> vTree, action |-> HasAction(vTree), framed |-> NeedsFramed(vTree)]))

\* ---- unit tables ----
Counts(u) == << BZero, BOne, BFromInt(7), BFromInt(123456789), BDiv(BMaxU64, SizeMult(u)),
                BDiv(BDiv(BMaxU64, SizeMult(u)), BFromInt(3)) >>
EmitUnits ==
  Mode = "units" =>
    /\ \A ui \in 1..7 : \A ci \in 1..6 :
         LET u == SizeUnitNames[ui]  n == Counts(u)[ci] IN
         PrintT(ToJson([size_unit |-> u, n |-> n, mult |-> SizeMult(u),
                        bytes |-> IF ByteSizeFits(n, u) THEN ByteSize(n, u) ELSE <<>>]))
    /\ \A ti \in 1..4 :
         PrintT(ToJson([time_unit |-> TimeUnitNames[ti], secs |-> BFromInt(TimeSecs(TimeUnitNames[ti]))]))
InvUnits ==
  /\ SizeMult("c") = <<1>> /\ SizeMult("w") = <<2>> /\ SizeMult("b") = <<5, 1, 2>>
  /\ SizeMult("k") = BFromInt(1024) /\ SizeMult("M") = BFromInt(1048576) /\ SizeMult("G") = BFromInt(1073741824)
  /\ SizeMult("T") = BMul(BFromInt(1048576), BFromInt(1048576))
  /\ TimeSecs("s") = 1 /\ TimeSecs("m") = 60 /\ TimeSecs("h") = 3600 /\ TimeSecs("d") = 86400
=============================================================================
