----------------------------- MODULE Trace_Total -----------------------------
(***************************************************************************)
(* C03: every recorded run of  parse -> compile -> render -> io_map        *)
(* (+ rendering the error as text) ends in a result or an error value at   *)
(* every stage; where the front-end specification defines the verdict of   *)
(* the input, the parse outcome class agrees with it.                      *)
(* Record: {"i": input, "p": "ok|err|panic", "c", "r", "m": stage classes} *)
(***************************************************************************)
EXTENDS Api, Json, IOUtils
CONSTANTS Stride, CheckSpec
VARIABLE vIdx

Rec == ndJsonDeserialize(IOEnv.TRACE)
NRec == Len(Rec)

JudgeTotal(r) ==
  (IF r.p \in {"ok", "err"} THEN <<>> ELSE <<"parse-" \o r.p>>)
  \o (IF r.c \in {"ok", "err", "none"} THEN <<>> ELSE <<"compile-" \o r.c>>)
  \o (IF r.r \in {"ok", "none"} THEN <<>> ELSE <<"render-" \o r.r>>)
  \o (IF r.m \in {"ok", "none"} THEN <<>> ELSE <<"iomap-" \o r.m>>)
  \o (IF ~CheckSpec \/ Len(r.i) > 5000 THEN <<>>
      ELSE LET e == ParseText(r.i) IN
           IF e.st = "ok" /\ r.p = "err" /\ ~e.mayrej THEN <<"rejected-valid">>
           ELSE IF e.st = "rej" /\ r.p = "ok" THEN <<"accepted-invalid">>
           ELSE <<>>)

Init == vIdx \in 1..Stride
Next == vIdx + Stride <= NRec /\ vIdx' = vIdx + Stride
Emit == vIdx <= NRec => LET k == JudgeTotal(Rec[vIdx]) IN (k # <<>> => PrintT(ToJson([idx |-> vIdx, kinds |-> k])))
\* number of records, printed once, so that the orchestrator knows the whole log was read
EmitCount == vIdx = 1 => PrintT(ToJson([count |-> NRec]))
=============================================================================
