----------------------------- MODULE MC_Manager -----------------------------
(***************************************************************************)
(* C11 (M): TLC explores ALL request sequences up to MaxLen over           *)
(*   2 patterns x {cs, ci}  (one a wildcard, one literal, equal up to case) *)
(*   2 files x 3 terminators, 3 stdout terminators                         *)
(* for both manager kinds, checking the design invariants in every state.  *)
(* (G): every explored request sequence is emitted as an AND chain whose   *)
(* i-th primary makes the i-th request; the real code compiles it and      *)
(* Trace_Sem checks scope, resource counts and behaviour.                  *)
(***************************************************************************)
EXTENDS Manager, Json
CONSTANTS MaxLen
VARIABLES vMgr, vReqs

\* equal up to case / wildcard, and pairs that collide if the case flag is folded into the pattern text
Pats == <<Cp("Foo*"), Cp("foo*"), Cp("foo"), Cp("ifoo*"), Cp("foo*i")>>
FilesP == <<Cp("A"), Cp("B")>>
Terms == << <<cLF>>, <<0>>, <<>> >>
Reqs == {[r |-> "matcher", pat |-> Pats[p], ci |-> c] : p \in 1..Len(Pats), c \in BOOLEAN}
        \cup {[r |-> "printer", term |-> Terms[t]] : t \in 1..3}
        \cup {[r |-> "fprinter", file |-> FilesP[f], term |-> Terms[t]] : f \in 1..2, t \in 1..3}

Init == vMgr \in {MInit("local"), MInit("dist")} /\ vReqs = <<>>
Next == /\ Len(vReqs) < MaxLen
        /\ \E q \in Reqs : vMgr' = MStep(vMgr, q) /\ vReqs' = Append(vReqs, q)

InvDesign ==
  /\ MNamesUnique(vMgr) /\ MDefBeforeUse(vMgr) /\ MSharing(vMgr) /\ MCounterAbove(vMgr)
  /\ MNumbersDistinctPerKind(vMgr) /\ MRetBound(vMgr) /\ MIoMapInverse(vMgr)
  \* sharing iff equal key: as many printers / matchers as distinct keys requested
  /\ Cardinality(AKeys(vMgr.printers)) = Cardinality({IF q.r = "printer" THEN <<<<>>, q.term>> ELSE <<q.file, q.term>> :
                                                     q \in {vReqs[i] : i \in {j \in 1..Len(vReqs) : vReqs[j].r # "matcher"}}})
  /\ Cardinality(AKeys(vMgr.matches)) = Cardinality({<<vReqs[i].pat, vReqs[i].ci>> : i \in {j \in 1..Len(vReqs) : vReqs[j].r = "matcher"}})

\* ---- G: the request sequence as an expression ----
NlFmtM == <<EFld("P"), EEsc("n")>>
NoNlFmtM == <<EFld("P")>>
ReqLeaf(q) ==
  IF q.r = "matcher" THEN NOr(IF q.ci THEN [k |-> "iname", s |-> q.pat] ELSE [k |-> "name", s |-> q.pat], [k |-> "true"])
  ELSE IF q.r = "printer" THEN
     (IF q.term = <<cLF>> THEN [k |-> "print"] ELSE IF q.term = <<0>> THEN [k |-> "print0"] ELSE [k |-> "printf", f |-> NlFmtM])
  ELSE (IF q.term = <<cLF>> THEN [k |-> "fprint", s |-> q.file] ELSE IF q.term = <<0>> THEN [k |-> "fprint0", s |-> q.file]
        ELSE [k |-> "fprintf", s |-> q.file, f |-> NlFmtM])
RECURSIVE ChainOf(_)
ChainOf(qs) == IF Len(qs) = 1 THEN ReqLeaf(qs[1]) ELSE NAnd(ChainOf(SubSeq(qs, 1, Len(qs) - 1)), ReqLeaf(qs[Len(qs)]))
\* the tree decides the manager kind by itself; emit once per request sequence (from the "local" run)
EmitTree == (vReqs # <<>> /\ vMgr.mode = "local") => PrintT(ToJson([t |-> ChainOf(vReqs), o |-> OptsInit, fam |-> "c11"]))
View == <<vMgr, vReqs>>
=============================================================================
