------------------------------- MODULE MC_C08 -------------------------------
(***************************************************************************)
(* C08 generator machines: permission arguments.                            *)
(*  Mode "octal":   vSeq = <<v>> for every octal value 0..4095 (fan-out    *)
(*                  through a two-level tree so that workers share it)     *)
(*  Mode "clauses": vSeq = sequence of clause indices (1..315), Next        *)
(*                  appends one clause, up to MaxLen clauses               *)
(* Each state emits the argument under the three prefixes ("", "-", "/").  *)
(* InvChmod: algebraic sanity of the specification's own chmod fold, so    *)
(* that the oracle is not vacuous.                                         *)
(***************************************************************************)
EXTENDS Front, Json
CONSTANTS MaxLen, Mode, Slice
VARIABLE vSeq

\* the 15 non-empty who sets written in canonical order, the 7 non-empty perm sets
WhoStrs == << Cp("u"), Cp("g"), Cp("o"), Cp("a"), Cp("ug"), Cp("uo"), Cp("ua"), Cp("go"), Cp("ga"), Cp("oa"),
              Cp("ugo"), Cp("uga"), Cp("uoa"), Cp("goa"), Cp("ugoa") >>
PermStrs == << Cp("r"), Cp("w"), Cp("x"), Cp("rw"), Cp("rx"), Cp("wx"), Cp("rwx") >>
Ops == << cPLUS, cMINUS, cEQ >>
NClause == 15 * 3 * 7
ClauseText(k) ==
  LET a == (k - 1) \div 21   b == ((k - 1) \div 7) % 3   c == (k - 1) % 7
  IN WhoStrs[a + 1] \o <<Ops[b + 1]>> \o PermStrs[c + 1]

Oct(v, nd) == IF nd = 3 THEN <<48 + ((v \div 64) % 8), 48 + ((v \div 8) % 8), 48 + (v % 8)>>
              ELSE <<48 + (v \div 512), 48 + ((v \div 64) % 8), 48 + ((v \div 8) % 8), 48 + (v % 8)>>

Init == vSeq = <<>>
Next ==
  IF Mode = "octal" THEN
     \/ vSeq = <<>> /\ \E h \in 0..63 : vSeq' = <<h>>
     \/ Len(vSeq) = 1 /\ \E l \in 0..63 : vSeq' = <<vSeq[1], l>>
  ELSE
     /\ Len(vSeq) < MaxLen
     /\ \E c \in 1..NClause :
           \* Slice > 1 thins the second and later clauses (quick tier): keep 1 in Slice
           /\ (IF Len(vSeq) = 0 THEN TRUE ELSE (c + 7 * vSeq[1]) % Slice = 0)
           /\ vSeq' = Append(vSeq, c)

KwPerm == Cp("-perm ")
Prefixes == << <<>>, <<cMINUS>>, <<cSLASH>> >>
Args ==
  IF Mode = "octal" THEN
     IF Len(vSeq) < 2 THEN {}
     ELSE LET v == vSeq[1] * 64 + vSeq[2] IN
          {Oct(v, 4)} \cup (IF v < 512 THEN {Oct(v, 3)} ELSE {})
  ELSE IF vSeq = <<>> THEN {}
  ELSE {Join([k \in 1..Len(vSeq) |-> ClauseText(vSeq[k])], <<cCOMMA>>)}

EmitVector ==
  \A a \in Args : \A p \in 1..3 :
     LET txt == KwPerm \o Prefixes[p] \o a
     IN PrintT(ToJson([i |-> txt, e |-> ParseText(txt), tag |-> "C08"]))

\* clauses whose who / permission letters repeat or come in another order (chmod reads them as sets)
OddWho == << Cp("uu"), Cp("gu"), Cp("au"), Cp("oog"), Cp("aa") >>
OddPerm == << Cp("rr"), Cp("ww"), Cp("xx"), Cp("wr"), Cp("xwr"), Cp("rwxx"), Cp("xrx") >>
EmitOdd ==
  (Mode = "clauses" /\ Len(vSeq) = 1 /\ vSeq[1] <= 45) =>
    \A w \in 1..(Len(WhoStrs) + Len(OddWho)) : \A o \in 1..3 : \A q \in 1..(Len(PermStrs) + Len(OddPerm)) : \A p \in 1..3 :
      (w > Len(WhoStrs) \/ q > Len(PermStrs)) /\ ((w + q) % 15 = vSeq[1] % 15) =>
        LET ws == IF w <= Len(WhoStrs) THEN WhoStrs[w] ELSE OddWho[w - Len(WhoStrs)]
            ps == IF q <= Len(PermStrs) THEN PermStrs[q] ELSE OddPerm[q - Len(PermStrs)]
            txt == KwPerm \o Prefixes[p] \o Cp("u+r,") \o ws \o <<Ops[o]>> \o ps
            txt1 == KwPerm \o Prefixes[p] \o ws \o <<Ops[o]>> \o ps
        IN /\ PrintT(ToJson([i |-> txt, e |-> ParseText(txt), tag |-> "C08"]))
           /\ PrintT(ToJson([i |-> txt1, e |-> ParseText(txt1), tag |-> "C08"]))

\* ---- algebraic sanity of the oracle (M) ----
AllBits == 0..8
ModeSets == {BitsOf(0), BitsOf(511), BitsOf(292), BitsOf(420), BitsOf(73), BitsOf(448)}
InvChmod ==
  \A m \in ModeSets :
    \A wi \in {1, 2, 5, 11, 15} : \A pi \in 1..7 :
      LET W == UnionOver(WhoStrs[wi], WhoMask)
          P == UnionOver(PermStrs[pi], PermMask)
      IN /\ ChmodApply(ChmodApply(m, W, cEQ, P), W, cEQ, P) = ChmodApply(m, W, cEQ, P)   \* '=' idempotent
         /\ ChmodApply(ChmodApply(m, W, cPLUS, P), W, cMINUS, P) = m \ (W \cap P)          \* + then -
         /\ ChmodApply(m, W, cPLUS, P) \ m \subseteq W \cap P                               \* + adds only who&perm
         /\ m \ ChmodApply(m, W, cMINUS, P) \subseteq W \cap P                              \* - removes only who&perm
         /\ ChmodApply(m, W, cEQ, P) \ W = m \ W                                           \* = leaves other classes
         /\ ChmodApply(m, BitsOf(511), cPLUS, P) = ChmodApply(m, BitsOf(448) \cup BitsOf(56) \cup BitsOf(7), cPLUS, P)  \* a = ugo
InvOracleAgrees ==
  \* the parser-level operator ArgPerm agrees with a direct fold of ChmodApply over the clause list
  Mode = "clauses" /\ vSeq # <<>> =>
    LET RECURSIVE Fold(_, _)
        Fold(k, m) == IF k > Len(vSeq) THEN m
                      ELSE LET ci == vSeq[k] - 1
                               W == UnionOver(WhoStrs[(ci \div 21) + 1], WhoMask)
                               P == UnionOver(PermStrs[(ci % 7) + 1], PermMask)
                           IN Fold(k + 1, ChmodApply(m, W, Ops[((ci \div 7) % 3) + 1], P))
        a == CHOOSE x \in Args : TRUE
    IN ArgPerm(a).v.m = IntOf(Fold(1, {}))
=============================================================================
