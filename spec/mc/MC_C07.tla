------------------------------- MODULE MC_C07 -------------------------------
(***************************************************************************)
(* C07 generator machine: numeric arguments at the boundaries of their     *)
(* fields.  State <<slot, sign, zeros, base, delta>> built level by level  *)
(* (so that TLC's workers share the fan-out):                              *)
(*   slot   a numeric keyword with a unit suffix ("" = default unit)       *)
(*   sign   "", "+", "-"        zeros  0, 1, 5, 11 or 21 leading zeros     *)
(*   base   0, 1, 2^31, 2^32, 2^63, 2^64, floor(2^64/unit) for every unit, *)
(*          a 40-digit number, and VERIF_SEED-derived random values        *)
(*   delta  -1, 0, +1                                                      *)
(* Expected verdict and value come from ArgLang/BigNat: reject iff beyond  *)
(* the field's range; a size whose byte count exceeds 64 bits may be       *)
(* rejected at parse time or at compile time (mayrej).                     *)
(***************************************************************************)
EXTENDS Front, Json
CONSTANTS Seed, NRandom
VARIABLE vSeq

Slot(kw, unit) == [kw |-> Cp(kw), unit |-> Cp(unit)]
Slots == << Slot("-uid", ""), Slot("-gid", ""), Slot("-inum", ""), Slot("-links", ""), Slot("-mirror-count", ""),
            Slot("-stripe-count", ""), Slot("-threads", ""), Slot("-maxdepth", ""), Slot("-mindepth", ""),
            Slot("-size", ""), Slot("-size", "b"), Slot("-size", "c"), Slot("-size", "w"), Slot("-size", "k"),
            Slot("-size", "M"), Slot("-size", "G"), Slot("-size", "T"),
            Slot("-amin", ""), Slot("-amin", "s"), Slot("-atime", ""), Slot("-atime", "h"), Slot("-cmin", "m"),
            Slot("-ctime", "d"), Slot("-mmin", ""), Slot("-mtime", ""), Slot("-mtime", "s"), Slot("-cmin", ""), Slot("-ctime", "") >>
Signs == << <<>>, <<cPLUS>>, <<cMINUS>> >>
\* every letter as a unit suffix (only the documented ones are units; the others must be refused,
\* also when the count is large enough to overflow a multiplication by a would-be unit)
Letters == Cp("abcdefghijklmnopqrstuvwxyzABCDEFGHIJKLMNOPQRSTUVWXYZ")
LetterKws == <<Cp("-size"), Cp("-mtime"), Cp("-amin"), Cp("-uid"), Cp("-links")>>
BigCounts == <<Cp("2"), Cp("2635249153387078803"), Cp("50539024859478224"), Cp("18446744073709551615"), Cp("307445734561825861")>>
EmitLetters ==
  vSeq = <<>> =>
    \A k \in 1..Len(LetterKws) : \A l \in 1..Len(Letters) : \A b \in 1..Len(BigCounts) : \A sg \in 1..3 :
      LET txt == LetterKws[k] \o <<cSP>> \o Signs[sg] \o BigCounts[b] \o <<Letters[l]>>
      IN PrintT(ToJson([i |-> txt, e |-> ParseText(txt), tag |-> "C07"]))
\* every printable character BETWEEN two digits of a numeric argument (a fraction, a separator, an exponent are not
\* decimal numbers), for every numeric keyword, with and without unit
BetweenKws == <<Cp("-uid"), Cp("-gid"), Cp("-inum"), Cp("-links"), Cp("-size"), Cp("-mtime"), Cp("-amin"), Cp("-cmin"), Cp("-atime"), Cp("-threads"),
               Cp("-mirror-count"), Cp("-stripe-count")>>
EmitBetween ==
  vSeq = <<>> =>
    \A k \in 1..Len(BetweenKws) : \A c \in {x \in 33..126 : x \notin {39, 34, 41} /\ ~(x >= 48 /\ x <= 57)} : \A sg \in 1..3 :
      \A tail \in {Cp("5"), Cp("05h"), Cp("5k"), Cp("000")} :
        LET txt == BetweenKws[k] \o <<cSP>> \o Signs[sg] \o Cp("1") \o <<c>> \o tail
        IN PrintT(ToJson([i |-> txt, e |-> ParseText(txt), tag |-> "C07"]))
Z5 == <<c0, c0, c0, c0, c0>>
\* (11 and 21 zeros: with them EVERY numeral is wider than a u32 resp. u64 can be, whatever its value; seed C05-i)
Zeros == << <<>>, <<c0>>, Z5, Z5 \o Z5 \o <<c0>>, Z5 \o Z5 \o Z5 \o Z5 \o <<c0>> >>

\* pseudo-random 64-bit-ish values from the seed (linear congruential on BigNat, deterministic)
RECURSIVE RandB(_, _)
RandB(k, x) == IF k = 0 THEN x
               ELSE RandB(k - 1, BMod(BAdd(BMul(x, BFromCp(Cp("6364136223846793005"))), BFromCp(Cp("1442695040888963407"))), B2p64))
Bases == << BZero, BOne, BPow2(31), B2p32, BPow2(63), B2p64,
            BDiv(B2p64, BFromInt(2)), BDiv(B2p64, BFromInt(512)), BDiv(B2p64, BPow2(10)), BDiv(B2p64, BPow2(20)),
            BDiv(B2p64, BPow2(30)), BDiv(B2p64, BPow2(40)), BFromInt(4096), BFromInt(999999999),
            BFromCp(Cp("1234567890123456789012345678901234567890")),
            \* beyond 2^64 in every leading-digit band of the 20-digit numbers, and further out: an overflow test
            \* that compares the wrapped accumulator with the previous one is fooled only in some bands
            BFromCp(Cp("20000000000000000000")), BFromCp(Cp("30000000000000000000")), BFromCp(Cp("40000000000000000000")),
            BFromCp(Cp("50000000000000000000")), BFromCp(Cp("60000000000000000000")), BFromCp(Cp("70000000000000000000")),
            BFromCp(Cp("80000000000000000000")), BFromCp(Cp("90000000000000000000")), BFromCp(Cp("100000000000000000000")),
            BFromCp(Cp("25000000000000000000")), BFromCp(Cp("45000000000000000000")), BFromCp(Cp("65000000000000000000")),
            BFromCp(Cp("85000000000000000000")), BPow2(65), BPow2(96), BPow2(128),
            BMul(B2p32, BFromInt(10)), BAdd(B2p32, BFromInt(420)), BAdd(B2p64, BFromInt(420)),
            BFromCp(Cp("5000000000")), BFromCp(Cp("7000000000")), BFromCp(Cp("9000000000")), BFromCp(Cp("10000000000")),
            BPow2(33), BPow2(40), BPow2(48),
            \* whole multiples of one unit in terms of another (a "normalisation" into a coarser unit changes the meaning:
            \* 172800s is a test on the second, 2d a test on the day) and round decimal values
            BFromInt(24), BFromInt(48), BFromInt(60), BFromInt(120), BFromInt(1440), BFromInt(2880), BFromInt(3600), BFromInt(7200),
            BFromInt(86400), BFromInt(172800), BFromInt(604800), BFromInt(512), BFromInt(1024), BFromInt(2048), BFromInt(1048576),
            BFromInt(2097152), BFromInt(1073741824), BFromInt(1000), BFromInt(1000000), BFromInt(100), BFromInt(10), BFromInt(365) >>
NBase == Len(Bases) + NRandom
\* chain of random values, computed once (constant-level, cached by TLC)
RECURSIVE RandChain(_, _, _)
RandChain(k, x, acc) == IF k > NRandom THEN acc
                        ELSE LET y == RandB(1, x) IN RandChain(k + 1, y, Append(acc, IF k % 2 = 0 THEN y ELSE BMod(y, BPow2(33))))
RandTable == RandChain(1, BFromInt(Seed + 17), <<>>)
BaseVal(b) == IF b <= Len(Bases) THEN Bases[b] ELSE RandTable[b - Len(Bases)]

Init == vSeq = <<>>
Next ==
  \/ Len(vSeq) = 0 /\ \E s \in 1..Len(Slots) : vSeq' = <<s>>
  \/ Len(vSeq) = 1 /\ \E b \in 1..NBase : vSeq' = Append(vSeq, b)
  \/ Len(vSeq) = 2 /\ \E sg \in 1..3, z \in 1..Len(Zeros), d \in {0, 1, 2} : vSeq' = vSeq \o <<sg, z, d>>

Number ==
  LET b == BaseVal(vSeq[2])
      d == vSeq[5]
  IN IF d = 0 THEN (IF BIsZero(b) THEN b ELSE BSub(b, BOne)) ELSE IF d = 1 THEN b ELSE BAdd(b, BOne)
Text ==
  LET s == Slots[vSeq[1]]
  IN s.kw \o <<cSP>> \o Signs[vSeq[3]] \o Zeros[vSeq[4]] \o BToCp(Number) \o s.unit
EmitVector ==
  Len(vSeq) = 5 => PrintT(ToJson([i |-> Eager(Text), e |-> ParseText(Eager(Text)), tag |-> "C07"]))
=============================================================================
