------------------------------ MODULE Trace_Api ------------------------------
(***************************************************************************)
(* Validation of recorded API histories (C03, C15, C20).  The log holds    *)
(* events of several processes; every event carries the label eid of the   *)
(* expression it concerns (a generator label, verified here: events with   *)
(* the same eid must have the same input).  One step of ApiNext consumes   *)
(* one event; the memo of the Api machine is the first event of the same   *)
(* eid and kind in the log.                                                *)
(***************************************************************************)
EXTENDS Api, Json, IOUtils
CONSTANTS Stride
VARIABLE vIdx

Rec == ndJsonDeserialize(IOEnv.TRACE)
NRec == Len(Rec)

\* first event with the same eid and kind
FirstOf(l) == CHOOSE k \in 1..l : Rec[k].ev = Rec[l].ev /\ Rec[k].eid = Rec[l].eid
                                   /\ \A k2 \in 1..(k - 1) : ~(Rec[k2].ev = Rec[l].ev /\ Rec[k2].eid = Rec[l].eid)
\* table computed once: for each event, the index of its memo entry
MemoIdx == SubSeq([l \in 1..NRec |-> FirstOf(l)], 1, NRec)

JudgeEvent(l) ==
  LET r == Rec[l]
      m == Rec[MemoIdx[l]]
  IN
  IF r.ev = "parse" THEN
     (IF ~Total(r.obs.st) THEN <<"not-total:" \o r.obs.st>> ELSE <<>>)
     \o (IF m.i # r.i THEN <<"bad-label">> ELSE IF m.obs = r.obs THEN <<>> ELSE <<"parse-not-deterministic">>)
  ELSE
     (IF ~Total(r.c.st) THEN <<"not-total:" \o r.c.st>> ELSE <<>>)
     \o (IF m.t # r.t \/ m.o # r.o THEN <<"bad-label">> ELSE CompileDiffKinds(r.t, m.c, r.c))
     \o EpochKinds(r.t, r.c)
     \o RenderKinds(r.c)

Init == vIdx \in 1..Stride
Next == vIdx + Stride <= NRec /\ vIdx' = vIdx + Stride
Emit == vIdx <= NRec => PrintT(ToJson([idx |-> vIdx, kinds |-> JudgeEvent(vIdx), memo |-> MemoIdx[vIdx]]))
=============================================================================
