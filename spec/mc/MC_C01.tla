------------------------------- MODULE MC_C01 -------------------------------
(***************************************************************************)
(* C01 generator machine.  The state is a sequence of word indices; Next   *)
(* appends one word.  Invariants evaluated in every state:                 *)
(*  M: InvClimbIsDecl, InvStructure  (abstract token classes, spec-only)   *)
(*  G: EmitVector  (concrete spellings; prints input + expected result for *)
(*     the conformance replay into the real parser)                        *)
(* A second machine (tree/redundant parentheses round trip) is in MC_C01T. *)
(***************************************************************************)
EXTENDS Front, Json
CONSTANTS MaxLen
VARIABLE vSeq

\* abstract token classes
P1 == [k |-> "true"]
P2 == [k |-> "false"]
P3 == [k |-> "print"]
TokClasses == <<TokOp("lp"), TokOp("rp"), TokOp("not"), TokOp("comma"), TokOp("and"), TokOp("or"),
                TokPrim(P1), TokPrim(P2), TokPrim(P3)>>
\* concrete spellings
Words == <<Cp("("), Cp(")"), Cp("!"), Cp(","), Cp("-a"), Cp("-and"), Cp("-o"), Cp("-or"),
           Cp("-true"), Cp("-name x"), Cp("-print"), Cp("-depth"), Cp("-O")>>
\* the 12th word is a scan-wide option: inside the expression it is a primary standing for -true
\* (Lexer.tla RelocateOption); in front it belongs to the leading run and leaves no token

NW == 13
Init == vSeq = <<>>
Next == Len(vSeq) < MaxLen /\ \E c \in 1..NW : vSeq' = Append(vSeq, c)
NextTok == Len(vSeq) < MaxLen /\ \E c \in 1..9 : vSeq' = Append(vSeq, c)

Toks == [i \in 1..Len(vSeq) |-> TokClasses[vSeq[i]]]
Text == Join([i \in 1..Len(vSeq) |-> Words[vSeq[i]]], <<cSP>>)

\* leaves of a tree, left to right
RECURSIVE Leaves(_)
Leaves(t) ==
  IF t.k \in {"and", "or", "list"} THEN Leaves(t.l) \o Leaves(t.r)
  ELSE IF t.k = "not" THEN Leaves(t.e) ELSE <<t>>
PrimsOf(toks) == LET idx == {i \in 1..Len(toks) : toks[i].tk = "prim"}
                     RECURSIVE Build(_)
                     Build(i) == IF i > Len(toks) THEN <<>>
                                 ELSE IF i \in idx THEN <<toks[i].node>> \o Build(i + 1) ELSE Build(i + 1)
                 IN Build(1)

\* shape facts for inputs without parentheses: precedence and left associativity
RECURSIVE ShapeOk(_)
ShapeOk(t) ==
  IF t.k = "list" THEN t.r.k # "list" /\ ShapeOk(t.l) /\ ShapeOk(t.r)
  ELSE IF t.k = "or" THEN t.l.k # "list" /\ t.r.k \notin {"list", "or"} /\ ShapeOk(t.l) /\ ShapeOk(t.r)
  ELSE IF t.k = "and" THEN t.l.k \notin {"list", "or"} /\ t.r.k \notin {"list", "or", "and"} /\ ShapeOk(t.l) /\ ShapeOk(t.r)
  ELSE IF t.k = "not" THEN t.e.k \notin {"list", "or", "and"} /\ ShapeOk(t.e)
  ELSE TRUE

InvClimbIsDecl == Climb(Toks) = Decl(Toks)

InvStructure ==
  LET t == Decl(Toks) IN
  IsRej(t) \/ ( /\ Leaves(t) = PrimsOf(Toks)
                /\ NoPrecNode(t)
                /\ ((\A i \in 1..Len(Toks) : Toks[i].tk \notin {"lp", "rp"}) => ShapeOk(t))
                \* the canonical printing parses back to the same tree
                /\ Decl(Unparse(t, <<>>)) = t
                /\ Decl(Unparse(t, <<TokOp("and")>>)) = t )

\* rejection is for the whole input: if a proper prefix is a sentence but the whole is not,
\* the result is REJ (never the prefix's tree) -- true by construction of Decl, stated as a check
InvNoPrefix ==
  IsRej(Decl(Toks)) => IsRej(Climb(Toks))

EmitVector == PrintT(ToJson([i |-> Text, e |-> ParseText(Text)]))

View == vSeq
=============================================================================
