------------------------------- MODULE MC_C05 -------------------------------
(***************************************************************************)
(* C05 generator machine: every keyword, members of its argument language, *)
(* systematic corruptions, five contexts.                                  *)
(* State vSeq grows level by level:                                        *)
(*   <<kw>>                      keyword index in Vocab                    *)
(*   <<kw, m>>                   member choice for the (last) argument     *)
(*   <<kw, m, c>>                corruption id (0 = none)                  *)
(* Every full state emits one vector per context.                          *)
(***************************************************************************)
EXTENDS ArgGen, Json
CONSTANTS MemberCap, Contexts
VARIABLE vSeq

NKw == Len(Vocab)
LastLang(e) == e.args[Len(e.args)]
NMember(e) == IF e.args = <<>> THEN 1
              ELSE LET n == Len(Members(LastLang(e))) IN IF n > MemberCap THEN MemberCap ELSE n

\* corruption ids: 0 none; 1..NJ append junk j; NJ+1..2NJ prefix junk; 2NJ+1..3NJ insert junk after
\* first char; 3NJ+1 missing (last) argument; 3NJ+2..3NJ+1+NJ keyword + junk glued; 4NJ+2 keyword
\* without its last character; 4NJ+3 keyword glued to the argument
NJ == Len(Junk)
\* ids above 4NJ+3: a letter a..z / A..Z appended to the argument (sweeps every possible unit letter)
Letters == Cp("abcdefghijklmnopqrstuvwxyzABCDEFGHIJKLMNOPQRSTUVWXYZ")
\* then: keyword in upper case, keyword capitalised (find's keywords are case-sensitive), the two-argument
\* primaries with their arguments glued ("a"b), a quoted argument with junk glued after the closing quote
NCorr == 4 * NJ + 3 + Len(Letters) + 4
UpperSeq(s) == [i \in 1..Len(s) |-> IF IsLower(s[i]) THEN s[i] - 32 ELSE s[i]]
CapSeq(s) == [i \in 1..Len(s) |-> IF i = 2 /\ IsLower(s[i]) THEN s[i] - 32 ELSE s[i]]

Init == vSeq = <<>>
Next ==
  \/ Len(vSeq) = 0 /\ \E k \in 1..NKw : vSeq' = <<k>>
  \/ Len(vSeq) = 1 /\ \E m \in 1..NMember(Vocab[vSeq[1]]) : vSeq' = Append(vSeq, m)
  \/ Len(vSeq) = 2 /\ \E c \in 0..NCorr : vSeq' = Append(vSeq, c)

\* the primary text for the state
Primary ==
  LET e == Vocab[vSeq[1]]
      c == vSeq[3]
      hasArg == e.args # <<>>
      \* leading arguments (all but the last) use the first member of their language
      lead == Flatten([k \in 1..(Len(e.args) - 1) |-> <<cSP>> \o OneMember(e.args[k])])
      w == IF hasArg THEN Members(LastLang(e))[vSeq[2]] ELSE <<>>
      j == IF c = 0 \/ c > 4 * NJ + 3 THEN 0 ELSE ((c - 1) % NJ) + 1
      jc == IF j = 0 THEN <<>> ELSE <<Junk[j]>>
      arg == IF c = 0 THEN w
             ELSE IF c > 4 * NJ + 3 + Len(Letters) THEN w
             ELSE IF c > 4 * NJ + 3 THEN w \o <<Letters[c - (4 * NJ + 3)]>>
             ELSE IF c <= NJ THEN w \o jc
             ELSE IF c <= 2 * NJ THEN jc \o w
             ELSE IF c <= 3 * NJ THEN (IF w = <<>> THEN jc ELSE <<w[1]>> \o jc \o Tail(w))
             ELSE w
      kw == IF c > 3 * NJ + 1 /\ c <= 4 * NJ + 1 THEN e.kw \o jc
            ELSE IF c = 4 * NJ + 2 THEN SubSeq(e.kw, 1, Len(e.kw) - 1)
            ELSE e.kw
      top == 4 * NJ + 3 + Len(Letters)
  IN IF c = top + 1 THEN Eager(UpperSeq(e.kw)) \o lead \o (IF hasArg THEN <<cSP>> \o w ELSE <<>>)
     ELSE IF c = top + 2 THEN Eager(CapSeq(e.kw)) \o lead \o (IF hasArg THEN <<cSP>> \o w ELSE <<>>)
     ELSE IF c = top + 3 THEN
        \* every argument quoted, the last one glued to the one before (or to nothing when there is one)
        (IF Len(e.args) >= 2 THEN e.kw \o <<cSP, cDQ>> \o OneMember(e.args[1]) \o <<cDQ>> \o w ELSE e.kw \o <<cSP, cDQ, 120, cDQ>> \o w)
     ELSE IF c = top + 4 THEN e.kw \o lead \o <<cSP, cSQ, 120, 121, cSQ, 122>>
     ELSE IF c = 3 * NJ + 1 THEN kw \o lead                          \* last argument missing
     ELSE IF c = 4 * NJ + 3 THEN kw \o lead \o arg              \* glued
     ELSE IF hasArg THEN kw \o lead \o <<cSP>> \o arg
     ELSE IF c > 4 * NJ + 3 /\ c <= 4 * NJ + 3 + Len(Letters) THEN kw \o <<Letters[c - (4 * NJ + 3)]>>
     ELSE IF c >= 1 /\ c <= 3 * NJ THEN kw \o jc                \* keyword-only: junk glued to keyword
     ELSE kw

CtxTrue == Cp("-true ")   CtxOr == Cp(" -o -false")   CtxLp == Cp("( ")   CtxRp == Cp(" )")   CtxNot == Cp("! ")
InContext(p, x) ==
  CASE x = 1 -> p
    [] x = 2 -> CtxTrue \o p
    [] x = 3 -> p \o CtxOr
    [] x = 4 -> CtxLp \o p \o CtxRp
    [] x = 5 -> CtxNot \o p

EmitVector ==
  Len(vSeq) = 3 =>
    LET p == Eager(Primary) IN
    \A x \in Contexts :
      LET txt == InContext(p, x)
      IN PrintT(ToJson([i |-> txt, e |-> ParseText(txt), tag |-> "C05"]))

\* every printable character once in every place where an argument language enumerates letters or digits
\* (a table with one wrong, missing or extra entry shows on ONE character)
SweepChars == {c \in 33..126 : c \notin {cSQ, cDQ, cRP}}
SweepForms(c) == << Cp("-type ") \o <<c>>, Cp("-type f,") \o <<c>>, Cp("-type ") \o <<c>> \o Cp(",d"), Cp("-perm ") \o <<c>> \o Cp("+r"),
                    Cp("-perm u") \o <<c>> \o Cp("r"), Cp("-perm u+") \o <<c>>, Cp("-perm g=r") \o <<c>>, Cp("-perm ") \o <<c>> \o Cp("644"),
                    Cp("-perm 64") \o <<c>>, Cp("-perm -") \o <<c>>, Cp("-perm /u+w,") \o <<c>>, Cp("-size 1") \o <<c>>, Cp("-size ") \o <<c>> \o Cp("1"),
                    Cp("-mtime 1") \o <<c>>, Cp("-amin ") \o <<c>> \o Cp("1"), Cp("-uid ") \o <<c>> \o Cp("5"), Cp("-uid 5") \o <<c>>,
                    Cp("-links +") \o <<c>>, Cp("-threads ") \o <<c>>, Cp("-name ") \o <<c>>, Cp("-") \o <<c>>, Cp("-print") \o <<c>>,
                    Cp("-a") \o <<c>>, Cp("-o") \o <<c>>, <<c>> \o Cp("-true"), Cp("-true ") \o <<c>>,
                    \* a character BETWEEN two digits (a fraction, a thousands separator, an exponent ...)
                    Cp("-mtime 1") \o <<c>> \o Cp("5"), Cp("-amin +2") \o <<c>> \o Cp("05h"), Cp("-size 1") \o <<c>> \o Cp("5k"), Cp("-uid 1") \o <<c>> \o Cp("5"),
                    Cp("-links 1") \o <<c>> \o Cp("000"), Cp("-threads 1") \o <<c>> \o Cp("6"), Cp("-perm 6") \o <<c>> \o Cp("4") >>
\* characters that some classification calls "white space" or "invisible" but that are NOT blanks of the
\* expression language (VT, FF, NEL, no-break space, the Unicode spaces and separators, BOM, soft hyphen,
\* zero-width space) and two ordinary non-ASCII characters: inside and around bare words
WideChars == {11, 12, 28, 31, 133, 160, 173, 233, 5760, 8192, 8199, 8202, 8203, 8232, 8233, 8239, 8287, 12288, 65279, 128512}
WideForms(c) == << Cp("-name a") \o <<c>> \o Cp("b"), Cp("-name ") \o <<c>>, Cp("-iname ") \o <<c>> \o Cp("x -print"), Cp("-path x") \o <<c>>,
                   Cp("-fprint o") \o <<c>> \o Cp("b"), Cp("-printf %p") \o <<c>> \o Cp("%s\\n"), Cp("-xattr-match n") \o <<c>> \o Cp(" v") \o <<c>>,
                   Cp("-pool ") \o <<c>> \o Cp("p"), Cp("-true") \o <<c>>, Cp("-uid 5") \o <<c>>, <<c>>, Cp("-name a ") \o <<c>> \o Cp(" -print"),
                   Cp("-true ") \o <<c>> \o Cp("-false"), Cp("( -name a") \o <<c>> \o Cp(" )") >>
\* words of GNU find (and a few look-alikes) that are NOT in the vocabulary of this crate: each is an unknown word,
\* whatever it means elsewhere -- alone, in front of an argument, and behind a primary
ForeignWords == << Cp("-daystart"), Cp("-noleaf"), Cp("-nowarn"), Cp("-warn"), Cp("-follow"), Cp("-mount"), Cp("-ignore_readdir_race"),
                   Cp("-noignore_readdir_race"), Cp("-regextype"), Cp("-newer"), Cp("-newermt"), Cp("-neweraa"), Cp("-exec"), Cp("-execdir"),
                   Cp("-ok"), Cp("-okdir"), Cp("-delete"), Cp("-context"), Cp("-used"), Cp("-wholename"), Cp("-iwholename"), Cp("-links2"),
                   Cp("-help"), Cp("--help"), Cp("-version"), Cp("-L"), Cp("-H"), Cp("-P"), Cp("-D"), Cp("-O3"), Cp("-E"), Cp("-X"), Cp("-d"),
                   Cp("-not"), Cp("-false2"), Cp("-empty1"), Cp("-xtype"), Cp("-perm+"), Cp("-cnewer2"), Cp("-min"), Cp("-time"), Cp("-size+"),
                   Cp("-print1"), Cp("-printx"), Cp("-fprint1"), Cp("-lsx"), Cp("-files0-from"), Cp("-maxdepth0"), Cp("-and2"), Cp("-or2") >>
\* pairs of characters that look like quotes but are not quotes of the expression language
QuotePairs == << <<8220, 8221>>, <<8216, 8217>>, <<171, 187>>, <<8249, 8250>>, <<8222, 8220>>, <<96, 96>>, <<180, 180>>, <<12300, 12301>>, <<8218, 8216>> >>
EmitForeign ==
  vSeq = <<>> =>
    /\ \A w \in 1..Len(ForeignWords) :
         LET fw == ForeignWords[w] IN
         \A txt \in {fw, fw \o Cp(" x"), Cp("-true ") \o fw, Cp("( ") \o fw \o Cp(" )"), fw \o Cp(" -mtime 0"), Cp("-name a -o ") \o fw \o Cp(" 5")} :
           PrintT(ToJson([i |-> txt, e |-> ParseText(txt), tag |-> "C05"]))
    /\ \A q \in 1..Len(QuotePairs) :
         LET o == <<QuotePairs[q][1]>>  c == <<QuotePairs[q][2]>> IN
         \A txt \in {Cp("-name ") \o o \o Cp("draft") \o c, Cp("-name ") \o o \o Cp("my draft") \o c \o Cp(" -print"),
                      Cp("-perm ") \o o \o Cp("u+x") \o c, Cp("-printf ") \o o \o Cp("%p\\n") \o c, Cp("-fprint ") \o o \o Cp("a b") \o c,
                      Cp("-path ") \o o \o Cp("x") \o c \o Cp(" -o -name ") \o o \o c} :
           PrintT(ToJson([i |-> txt, e |-> ParseText(txt), tag |-> "C05"]))
EmitSweep ==
  vSeq = <<>> =>
    /\ \A c \in SweepChars : \A k \in 1..Len(SweepForms(c)) :
         LET txt == SweepForms(c)[k] IN
         PrintT(ToJson([i |-> txt, e |-> ParseText(txt), tag |-> "C05"]))
    /\ \A c \in WideChars : \A k \in 1..Len(WideForms(c)) :
         LET txt == WideForms(c)[k] IN
         PrintT(ToJson([i |-> txt, e |-> ParseText(txt), tag |-> "C05"]))
=============================================================================
