------------------------------ MODULE Trace_Pre ------------------------------
(***************************************************************************)
(* Implementation -> specification for LONG inputs (C01): the trees of     *)
(* chains of hundreds of operands are deeper than the JSON readers accept, *)
(* so the recorder logs the SHAPE of the tree parse() returned as the      *)
(* pre-order sequence of its node kinds:                                   *)
(*   {"i": input code points, "st": "ok"|"err"|"panic", "pre": [kinds]}    *)
(* and(1) or(2) list(3) not(4) prec(5) true(10) false(11) name(12)         *)
(* print(13) other(19).  With the arities known, the pre-order sequence    *)
(* determines the tree up to the arguments of its leaves.  TLC computes    *)
(* the same sequence from the tree the specification gives for the input.  *)
(***************************************************************************)
EXTENDS Front, Json, IOUtils
CONSTANTS Stride
VARIABLE vIdx

Rec == ndJsonDeserialize(IOEnv.TRACE)
N == Len(Rec)

RECURSIVE Pre(_)
Pre(t) ==
  IF t.k = "and" THEN <<1>> \o Pre(t.l) \o Pre(t.r)
  ELSE IF t.k = "or" THEN <<2>> \o Pre(t.l) \o Pre(t.r)
  ELSE IF t.k = "list" THEN <<3>> \o Pre(t.l) \o Pre(t.r)
  ELSE IF t.k = "not" THEN <<4>> \o Pre(t.e)
  ELSE IF t.k = "prec" THEN <<5>> \o Pre(t.e)
  ELSE IF t.k = "true" THEN <<10>>
  ELSE IF t.k = "false" THEN <<11>>
  ELSE IF t.k = "name" THEN <<12>>
  ELSE IF t.k = "print" THEN <<13>>
  ELSE <<19>>

\* The recorder gives the sentence twice: as text (what parse() read) and as the token kinds its words stand for
\* (1 and, 2 or, 3 comma, 4 not, 10 true, 11 false, 12 name, 13 print; juxtaposition leaves no token).  For inputs of
\* thousands of words the specification is asked at the GRAMMAR level (Climb over the token list, linear) instead of
\* through the character-level lexer; inputs up to 1500 characters are also lexed, and both roads must agree.
TokOf(x) == IF x = 1 THEN TokOp("and") ELSE IF x = 2 THEN TokOp("or") ELSE IF x = 3 THEN TokOp("comma") ELSE IF x = 4 THEN TokOp("not")
            ELSE IF x = 10 THEN TokPrim([k |-> "true"]) ELSE IF x = 11 THEN TokPrim([k |-> "false"])
            ELSE IF x = 12 THEN TokPrim([k |-> "name", s |-> <<112>>]) ELSE TokPrim([k |-> "print"])
GrammarVerdict(r) ==
  LET t == Climb(Eager([i \in 1..Len(r.toks) |-> TokOf(r.toks[i])])) IN
  IF IsRej(t) THEN [st |-> "rej"] ELSE [st |-> "ok", t |-> t, mayrej |-> FALSE]
Judge(r) ==
  LET e == GrammarVerdict(r)
      viaText == IF Len(r.i) <= 1500 THEN ParseText(r.i) ELSE e
  IN
  IF viaText.st # e.st \/ (e.st = "ok" /\ Pre(viaText.t) # Pre(e.t)) THEN <<"recorder-tokens-disagree-with-text">> ELSE
  IF r.st = "panic" THEN <<"panic">>
  ELSE IF e.st = "unspec" THEN <<>>
  ELSE IF e.st = "ok" THEN
     IF r.st # "ok" THEN (IF e.mayrej THEN <<>> ELSE <<"rejected-valid">>)
     ELSE IF Pre(e.t) = r.pre THEN <<>> ELSE <<"tree-mismatch">>
  ELSE IF r.st = "ok" THEN <<"accepted-invalid">> ELSE <<>>

Init == vIdx \in 1..Stride
Next == vIdx + Stride <= N /\ vIdx' = vIdx + Stride
Emit == vIdx <= N => PrintT(ToJson([idx |-> vIdx, kinds |-> Judge(Rec[vIdx]), cls |-> "x"]))
=============================================================================
