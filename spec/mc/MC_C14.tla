------------------------------- MODULE MC_C14 -------------------------------
(***************************************************************************)
(* C14 generator machine: format strings.                                  *)
(*  Mode "chars":  vSeq is a string over a 16-symbol alphabet chosen to hit *)
(*                 every directive class; Next appends one symbol.         *)
(*  Mode "pieces": vSeq is a sequence of documented directives / escapes / *)
(*                 literals; Next appends one piece (adjacency coverage).  *)
(* Invariants: InvSegmentation (spec-level: elements cover the input, no   *)
(* empty or adjacent literals), EmitVector (G: -printf '<s>' replayed into *)
(* the real parser and compared with the spec's element list).             *)
(***************************************************************************)
EXTENDS Front, Json
CONSTANTS MaxLen, Mode
VARIABLE vSeq

Alphabet == Cp("%\\{}:pAQnc0178@x+")
Pieces == << Cp("%%"), Cp("%a"), Cp("%b"), Cp("%c"), Cp("%d"), Cp("%D"), Cp("%f"), Cp("%F"), Cp("%g"), Cp("%G"),
             Cp("%h"), Cp("%H"), Cp("%i"), Cp("%k"), Cp("%l"), Cp("%m"), Cp("%M"), Cp("%n"), Cp("%p"), Cp("%P"),
             Cp("%s"), Cp("%S"), Cp("%t"), Cp("%u"), Cp("%U"), Cp("%y"), Cp("%Y"), Cp("%Z"),
             Cp("%A@"), Cp("%CH"), Cp("%TY"), Cp("%{fid}"), Cp("%{projid}"), Cp("%{mirror-count}"),
             Cp("%{stripe-count}"), Cp("%{stripe-size}"), Cp("%{xattr:foo}"),
             Cp("\\a"), Cp("\\b"), Cp("\\c"), Cp("\\f"), Cp("\\n"), Cp("\\r"), Cp("\\t"), Cp("\\v"), Cp("\\0"),
             Cp("\\\\"), Cp("\\101"), Cp("\\377"), Cp("\\q"), Cp("\\"), Cp("\\+12"), Cp("\\-1"), Cp("%{FID}"), Cp("%{Fid}"), Cp("%{ProjID}"), Cp("%{XATTR:foo}"), Cp("%{xattr:Foo}"), Cp("%{stripe_count}"), Cp("%P "), Cp("\\N"), Cp("%a@"), Cp("\\ 12"), Cp("\\x41"),
             Cp("abc"), Cp(" "), Cp("1"), Cp("{"), Cp("%q"), Cp("%"), Cp("%{"), Cp("%A") >>

NSym == IF Mode = "chars" THEN Len(Alphabet) ELSE Len(Pieces)
Init == vSeq = <<>>
Next == Len(vSeq) < MaxLen /\ \E c \in 1..NSym : vSeq' = Append(vSeq, c)

Str == IF Mode = "chars" THEN [k \in 1..Len(vSeq) |-> Alphabet[vSeq[k]]]
       ELSE Flatten([k \in 1..Len(vSeq) |-> Pieces[vSeq[k]]])

InvSegmentation ==
  LET s == Eager(Str)
      r == FmtParse(s)
  IN r.st = "ok" => FmtCovers(r.els, s, 1) /\ FmtWellFormed(r.els)

KwPrintf == Cp("-printf '")
Text == KwPrintf \o Eager(Str) \o <<cSQ>>
EmitVector == vSeq # <<>> => PrintT(ToJson([i |-> Text, e |-> ParseText(Text), tag |-> "C14"]))

\* every printable character once after '%', after '\', after '%A' '%C' '%T', after '%{', as the last digit of an
\* octal escape and alone (a table with one wrong or missing entry shows on ONE character)
SweepChars == {c \in 33..126 : c # cSQ}
SweepForms(c) == << <<cPCT, c>>, <<cBSL, c>>, <<97, cPCT, c, 98>>, <<97, cBSL, c, 98>>, <<cPCT, 65, c>>, <<cPCT, 67, c>>, <<cPCT, 84, c>>,
                    <<cPCT, 123, c, 125>>, <<cBSL, 48, 49, c>>, <<cBSL, 49, c, 49>>, <<cBSL, c, 48, 49>>, <<c>>, <<cBSL, cBSL, c>>, <<cPCT, cPCT, c>> >>
\* every documented brace directive with one character deleted, doubled, or two neighbours swapped, and with the
\* usual separators replaced (- _ nothing): near-misses of a long token are not directives
BraceDirs == << Cp("%{fid}"), Cp("%{projid}"), Cp("%{mirror-count}"), Cp("%{stripe-count}"), Cp("%{stripe-size}"), Cp("%{xattr:foo}") >>
DelAt(s, k) == SubSeq(s, 1, k - 1) \o SubSeq(s, k + 1, Len(s))
DupAt(s, k) == SubSeq(s, 1, k) \o SubSeq(s, k, Len(s))
SwapAt(s, k) == SubSeq(s, 1, k - 1) \o <<s[k + 1], s[k]>> \o SubSeq(s, k + 2, Len(s))
EmitBraceEdits ==
  vSeq = <<>> =>
    \A d \in 1..Len(BraceDirs) : \A k \in 2..Len(BraceDirs[d]) :
      LET b == BraceDirs[d]
          cands == {DelAt(b, k), DupAt(b, k)} \cup (IF k < Len(b) THEN {SwapAt(b, k)} ELSE {})
                   \cup (IF b[k] = cMINUS THEN {SubSeq(b, 1, k - 1) \o <<95>> \o SubSeq(b, k + 1, Len(b)), SubSeq(b, 1, k - 1) \o <<cSP>> \o SubSeq(b, k + 1, Len(b))} ELSE {})
      IN \A x \in cands :
           LET txt == KwPrintf \o Cp("a") \o x \o Cp("\\n") \o <<cSQ>> IN
           PrintT(ToJson([i |-> txt, e |-> ParseText(txt), tag |-> "C14"]))
\* a backslash in front of a blank or control character inside a quoted format (a pre-processing of "line
\* continuations" or the like would eat both)
CtlAfterBsl == {9, 10, 11, 12, 13, 32, 1, 27, 127, 160}
EmitCtl ==
  vSeq = <<>> =>
    \A c \in CtlAfterBsl :
      \A txt \in {Cp("-printf \"%p,\\") \o <<c>> \o Cp("%s\\n\""), Cp("-printf 'a\\") \o <<c>> \o Cp("b'"), Cp("-printf '\\") \o <<c>> \o <<cSQ>>,
                   Cp("-fprintf f \"x") \o <<c>> \o Cp("\\") \o <<c>> \o Cp("y\" -print")} :
        PrintT(ToJson([i |-> txt, e |-> ParseText(txt), tag |-> "C14"]))
\* a format given WITHOUT quotes that holds, as ordinary literal text, a character some classification calls
\* white space (but which is not a blank of the expression language), and the same format between quotes
WideChars == {11, 12, 28, 31, 133, 160, 173, 233, 5760, 8192, 8199, 8202, 8203, 8232, 8233, 8239, 8287, 12288, 65279, 128512}
EmitSweep ==
  vSeq = <<>> =>
    /\ \A c \in SweepChars : \A k \in 1..Len(SweepForms(c)) :
         LET txt == KwPrintf \o SweepForms(c)[k] \o <<cSQ>> IN
         PrintT(ToJson([i |-> txt, e |-> ParseText(txt), tag |-> "C14"]))
    /\ \A c \in WideChars :
         LET bare == Cp("-printf %p") \o <<c>> \o Cp("%s\\n")
             quoted == KwPrintf \o Cp("%p") \o <<c>> \o Cp("%s\\n") \o <<cSQ>>
             mid == Cp("-printf ") \o <<c>> \o Cp("\\n -o -fprintf f x") \o <<c>>
         IN /\ PrintT(ToJson([i |-> bare, e |-> ParseText(bare), tag |-> "C14"]))
            /\ PrintT(ToJson([i |-> quoted, e |-> ParseText(quoted), tag |-> "C14"]))
            /\ PrintT(ToJson([i |-> mid, e |-> ParseText(mid), tag |-> "C14"]))
=============================================================================
