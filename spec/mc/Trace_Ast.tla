------------------------------ MODULE Trace_Ast ------------------------------
(***************************************************************************)
(* C19, implementation -> specification: random trees built through the    *)
(* public constructors (the recorder logs the tree and what action() and   *)
(* complex_frames() answered); Ast.tla judges.                             *)
(***************************************************************************)
EXTENDS Ast, Json, IOUtils
CONSTANTS Stride
VARIABLE vIdx
Rec == ndJsonDeserialize(IOEnv.TRACE)
NRec == Len(Rec)
Judge(r) ==
  IF r.st # "ok" THEN <<"panic">>
  ELSE (IF r.action = HasAction(r.t) THEN <<>> ELSE <<"has-action">>)
       \o (IF r.framed = NeedsFramed(r.t) THEN <<>> ELSE <<"needs-framed">>)
Init == vIdx \in 1..Stride
Next == vIdx + Stride <= NRec /\ vIdx' = vIdx + Stride
Emit == vIdx <= NRec => PrintT(ToJson([idx |-> vIdx, kinds |-> Judge(Rec[vIdx])]))
=============================================================================
