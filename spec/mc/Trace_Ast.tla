------------------------------ MODULE Trace_Ast ------------------------------
(***************************************************************************)
(* C19, implementation -> specification: random trees built through the    *)
(* public constructors (the recorder logs the tree and what action() and   *)
(* complex_frames() answered); Ast.tla judges.                             *)
(***************************************************************************)
EXTENDS Ast, Json, IOUtils
CONSTANTS Stride
VARIABLE vIdx
Rec == ndJsonDeserialize(IOEnv.TRACE)
NRec == Len(Rec)
\* BIG trees (thousands of levels: deeper than the JSON readers accept) arrive as a description -- a left-deep
\* chain of n members under one operator (or the three in turn), every member the test `fill` except the member at
\* position pos, which is `leaf` -- and are built here.  "mode" is what compile() chose for it ("framed" / "plain").
BigMember(b, i) == IF i = b.pos THEN b.leaf ELSE b.fill
BigOp(b, i, l, r) ==
  LET o == IF b.op = "mix" THEN <<"or", "and", "list">>[(i % 3) + 1] ELSE b.op IN
  IF o = "or" THEN NOr(l, r) ELSE IF o = "and" THEN NAnd(l, r) ELSE NList(l, r)
RECURSIVE BigBuild(_, _)
BigBuild(b, i) == IF i = 1 THEN BigMember(b, 1) ELSE BigOp(b, i, BigBuild(b, i - 1), BigMember(b, i))
TreeOf(r) == IF "big" \in DOMAIN r THEN BigBuild(r.big, r.big.n) ELSE r.t
Judge(r) ==
  IF r.st # "ok" THEN <<"panic">>
  ELSE LET t == TreeOf(r) IN
       (IF r.action = HasAction(t) THEN <<>> ELSE <<"has-action">>)
       \o (IF r.framed = NeedsFramed(t) THEN <<>> ELSE <<"needs-framed">>)
       \o (IF "mode" \in DOMAIN r /\ r.mode \in {"framed", "plain"} /\ (r.mode = "framed") # NeedsFramed(t) THEN <<"mode-mismatch">> ELSE <<>>)
       \o (IF "mode" \in DOMAIN r /\ r.mode = "panic" THEN <<"compile-panic">> ELSE <<>>)
Init == vIdx \in 1..Stride
Next == vIdx + Stride <= NRec /\ vIdx' = vIdx + Stride
Emit == vIdx <= NRec => PrintT(ToJson([idx |-> vIdx, kinds |-> Judge(Rec[vIdx])]))
=============================================================================
