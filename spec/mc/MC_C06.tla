------------------------------- MODULE MC_C06 -------------------------------
(***************************************************************************)
(* C06 generator machine: layout variants of an expression.                *)
(* A base expression is a layout tree over six primaries.  A variant is    *)
(* the base printed with                                                   *)
(*   - a mask of redundant parentheses around operands,                    *)
(*   - up to MaxDev deviations from the canonical spelling, each on its    *)
(*     own slot: the separator of one gap (TAB, CR, LF, two blanks, CR LF, *)
(*     or nothing inside a parenthesis), leading/trailing blanks, the      *)
(*     spelling of one AND (-a / -and / juxtaposition) or OR (-o / -or),   *)
(*     the quoting style of one argument (bare, '...', "...").             *)
(* State <<base, mask, d1, d2, ...>> with d1 < d2 < ... indices into the   *)
(* deviation list of (base, mask).  Every variant must yield the options   *)
(* and tree of the canonical spelling: the vector carries the SPEC's       *)
(* result for the canonical text as the expected observation.              *)
(* InvSpecAgrees: the specification itself gives the variant that result.  *)
(***************************************************************************)
EXTENDS Front, Json
CONSTANTS MaxDev, MaskSet
VARIABLE vSeq

\* ---- primaries: keyword + arguments (value, quotable) ----
Arg(v, q) == [v |-> Cp(v), q |-> q]
Prims == << [kw |-> Cp("-true"), args |-> <<>>],
            [kw |-> Cp("-name"), args |-> <<Arg("dir\\", TRUE)>>],
            [kw |-> Cp("-uid"), args |-> <<Arg("+5", FALSE)>>],
            [kw |-> Cp("-perm"), args |-> <<Arg("u+x", TRUE)>>],
            [kw |-> Cp("-printf"), args |-> <<Arg("%p\\n", TRUE)>>],
            [kw |-> Cp("-xattr-match"), args |-> <<Arg("a", TRUE), Arg("b.c", TRUE)>>],
            \* 7, 8: scan-wide options standing INSIDE the expression (an operand like any other for the layout rules:
            \* parentheses with or without inner blanks around it, any blank before it; seed C06-i)
            [kw |-> Cp("-depth"), args |-> <<>>],
            [kw |-> Cp("-threads"), args |-> <<Arg("4", FALSE)>>] >>
Leaf(n) == [k |-> "leaf", id |-> n]
Leaves6 == {Leaf(n) : n \in 1..6}
BaseSet == Leaves6 \cup {NNot(a) : a \in Leaves6} \cup {NNot(NNot(a)) : a \in Leaves6}
           \cup {NAnd(a, b) : a, b \in Leaves6} \cup {NOr(a, b) : a, b \in Leaves6} \cup {NList(a, b) : a, b \in Leaves6}
BigBases == << NList(NNot(NOr(Leaf(2), Leaf(3))), NAnd(Leaf(4), Leaf(5))),
               NAnd(NAnd(Leaf(1), NOr(Leaf(6), Leaf(2))), NNot(Leaf(3))),
               NOr(NAnd(Leaf(2), Leaf(2)), NList(Leaf(5), NNot(NNot(Leaf(6))))),
               NAnd(Leaf(2), Leaf(7)), NAnd(Leaf(3), Leaf(8)), NList(Leaf(1), Leaf(7)), NOr(Leaf(5), NNot(Leaf(7))),
               NOr(Leaf(2), NAnd(Leaf(8), Leaf(4))) >>
\* an arbitrary but fixed enumeration of the bases
RECURSIVE SetToSeq(_)
SetToSeq(S) == IF S = {} THEN <<>> ELSE LET x == CHOOSE x \in S : TRUE IN <<x>> \o SetToSeq(S \ {x})
BaseSeq == SetToSeq(BaseSet) \o BigBases
NBase == Len(BaseSeq)

\* ---- tree -> tokens with redundant parentheses (operand numbering in pre-order) ----
RECURSIVE UnparseL(_, _, _)
UnparseL(x, mask, n) ==
  LET extra(i) == (mask \div (2 ^ (i % 10))) % 2 = 1
      W(r, need, i) == IF need \/ extra(i) THEN Paren(r) ELSE r
  IN
  IF x.k \in {"list", "or", "and"} THEN
     LET lv == Level(x)
         l == UnparseL(x.l, mask, n + 2)
         r == UnparseL(x.r, mask, l[2])
         opt == IF x.k = "list" THEN TokOp("comma") ELSE IF x.k = "or" THEN TokOp("or") ELSE TokOp("and")
     IN << W(l[1], Level(x.l) < lv, n) \o <<opt>> \o W(r[1], Level(x.r) <= lv, n + 1), r[2] >>
  ELSE IF x.k = "not" THEN
     LET e == UnparseL(x.e, mask, n + 1)
     IN << <<TokOp("not")>> \o W(e[1], Level(x.e) < 3, n), e[2] >>
  ELSE << <<[tk |-> "leaf", id |-> x.id]>>, n >>

Toks(b, mask) == UnparseL(BaseSeq[b], mask, 0)[1]

\* ---- deviations ----
InnerSeps == << <<cTAB>>, <<cCR>>, <<cLF>>, <<cSP, cSP>>, <<cCR, cLF>>, <<cTAB, cSP>> >>
EdgeSeps == << <<cSP>>, <<cTAB>>, <<cLF>>, <<cCR, cLF>> >>
Dev(kind, at, val) == [kind |-> kind, at |-> at, val |-> val]
\* slot order: gaps 0..n, then tokens 1..n
DevsOf(ts) ==
  LET n == Len(ts)
      gapDevs(g) ==
        IF g = 0 \/ g = n THEN [j \in 1..Len(EdgeSeps) |-> Dev("gap", g, EdgeSeps[j])]
        ELSE [j \in 1..Len(InnerSeps) |-> Dev("gap", g, InnerSeps[j])]
             \o (IF ts[g].tk = "lp" \/ ts[g + 1].tk = "rp" THEN <<Dev("gap", g, <<>>)>> ELSE <<>>)
      tokDevs(k) ==
        IF ts[k].tk = "and" THEN
           \* juxtaposition only where both neighbours are not operators (always true here)
           <<Dev("spell", k, Cp("-and")), Dev("spell", k, <<>>)>>
        ELSE IF ts[k].tk = "or" THEN <<Dev("spell", k, Cp("-or"))>>
        ELSE IF ts[k].tk = "leaf" THEN
           Flatten([a \in 1..Len(Prims[ts[k].id].args) |->
                      IF Prims[ts[k].id].args[a].q
                      THEN <<Dev("quote", k * 10 + a, <<cSQ>>), Dev("quote", k * 10 + a, <<cDQ>>)>> ELSE <<>>])
        ELSE <<>>
  IN Flatten([g \in 1..(n + 1) |-> gapDevs(g - 1)]) \o Flatten([k \in 1..n |-> tokDevs(k)])

Slot(d) == <<d.kind, d.at>>

\* ---- rendering ----
WAnd == Cp("-a")  WOr == Cp("-o")

RenderTok(ts, k, ds) ==
  LET tok == ts[k]
      sp == {d \in ds : d.kind = "spell" /\ d.at = k}
  IN
  IF tok.tk = "leaf" THEN
     LET p == Prims[tok.id]
         argText(a) ==
           LET qd == {d \in ds : d.kind = "quote" /\ d.at = k * 10 + a}
           IN IF qd = {} THEN p.args[a].v
              ELSE LET q == (CHOOSE d \in qd : TRUE).val IN q \o p.args[a].v \o q
     IN p.kw \o Flatten([a \in 1..Len(p.args) |-> <<cSP>> \o argText(a)])
  ELSE IF sp # {} THEN (CHOOSE d \in sp : TRUE).val
  ELSE IF tok.tk = "lp" THEN <<cLP>> ELSE IF tok.tk = "rp" THEN <<cRP>>
  ELSE IF tok.tk = "not" THEN <<cBANG>> ELSE IF tok.tk = "comma" THEN <<cCOMMA>>
  ELSE IF tok.tk = "and" THEN WAnd ELSE WOr

GapText(ts, g, ds) ==
  LET gd == {d \in ds : d.kind = "gap" /\ d.at = g}
      n == Len(ts)
  IN IF gd # {} THEN (CHOOSE d \in gd : TRUE).val
     ELSE IF g = 0 \/ g = n THEN <<>> ELSE <<cSP>>

\* a dropped AND (juxtaposition) contributes no word and only one of its two gaps
RECURSIVE RenderFrom(_, _, _)
RenderFrom(ts, k, ds) ==
  IF k > Len(ts) THEN <<>>
  ELSE LET w == RenderTok(ts, k, ds)
           dropped == ts[k].tk = "and" /\ w = <<>>
       IN IF dropped THEN RenderFrom(ts, k + 1, ds)
          ELSE w \o GapText(ts, k, ds) \o RenderFrom(ts, k + 1, ds)
Render(ts, ds) == GapText(ts, 0, ds) \o RenderFrom(ts, 1, ds)

\* ---- the machine ----
Init == vSeq = <<>>
NDev == Len(vSeq) - 2
CurDevs == IF Len(vSeq) < 2 THEN <<>> ELSE DevsOf(Toks(vSeq[1], vSeq[2]))
Next ==
  \/ Len(vSeq) = 0 /\ \E b \in 1..NBase : vSeq' = <<b>>
  \/ Len(vSeq) = 1 /\ \E m \in MaskSet : vSeq' = Append(vSeq, m)
  \/ /\ Len(vSeq) >= 2 /\ NDev < MaxDev
     /\ LET dl == CurDevs
            lo == IF NDev = 0 THEN 1 ELSE vSeq[Len(vSeq)] + 1
        IN \E d \in lo..Len(dl) :
              /\ \A j \in 3..Len(vSeq) : Slot(dl[vSeq[j]]) # Slot(dl[d])
              /\ vSeq' = Append(vSeq, d)

DevSet == LET dl == CurDevs IN {dl[vSeq[j]] : j \in 3..Len(vSeq)}
VariantText == Render(Toks(vSeq[1], vSeq[2]), DevSet)
CanonText(b) == Render(Toks(b, 0), {})
\* expected results of the canonical spellings, computed once
CanonResult == [b \in 1..NBase |-> ParseText(CanonText(b))]

InvSpecAgrees ==
  Len(vSeq) >= 2 =>
    LET r == ParseText(VariantText) IN
      /\ CanonResult[vSeq[1]].st = "ok"
      /\ r = CanonResult[vSeq[1]]

EmitVector ==
  Len(vSeq) >= 2 => PrintT(ToJson([i |-> VariantText, e |-> CanonResult[vSeq[1]], tag |-> "C06"]))

\* blank-only inputs mean -true
BlankStrs == {<<>>} \cup {<<a>> : a \in Blank} \cup {<<a, b>> : a, b \in Blank} \cup {<<a, b, c>> : a, b, c \in Blank}
EmitBlank ==
  vSeq = <<>> => \A s \in BlankStrs :
     PrintT(ToJson([i |-> s, e |-> [st |-> "ok", o |-> OptsInit, t |-> TrueNode, mayrej |-> FALSE], tag |-> "C06"]))
\* an input holding only options, with leading / trailing / inner blanks of every kind, means the same
\* as its canonical spelling (tree -true, the options registered)
OptRuns == << <<Cp("-depth")>>, <<Cp("-threads 4")>>, <<Cp("-depth"), Cp("-threads 16")>>, <<Cp("-threads 2"), Cp("-depth"), Cp("-threads 8")>> >>
Seps == << <<cSP>>, <<cTAB>>, <<cLF>>, <<cCR, cLF>>, <<cSP, cSP>> >>
Edges == << <<>>, <<cSP>>, <<cTAB>>, <<cLF>>, <<cCR, cLF>>, <<cSP, cTAB, cSP>> >>
EmitOptionsOnly ==
  vSeq = <<>> =>
    \A r \in 1..Len(OptRuns) : \A a \in 1..Len(Edges) : \A b \in 1..Len(Edges) : \A m \in 1..Len(Seps) :
      LET txt == Edges[a] \o Join(OptRuns[r], Seps[m]) \o Edges[b]
          canon == ParseText(Join(OptRuns[r], <<cSP>>))
      IN /\ ParseText(txt) = canon
         /\ PrintT(ToJson([i |-> txt, e |-> canon, tag |-> "C06"]))
\* ... and in front of an expression the same run, however spaced, leaves the expression untouched
EmitOptionsFront ==
  (Len(vSeq) = 2 /\ vSeq[2] = 0 /\ vSeq[1] % 7 = 0) =>
    \A r \in 1..Len(OptRuns) : \A m \in 1..Len(Seps) : \A b \in 1..Len(Edges) :
      LET body == CanonText(vSeq[1])
          txt == Join(OptRuns[r], Seps[m]) \o Seps[m] \o body \o Edges[b]
          canon == ParseText(Join(OptRuns[r], <<cSP>>) \o <<cSP>> \o body)
      IN PrintT(ToJson([i |-> txt, e |-> canon, tag |-> "C06"]))
\* the quoting style of an argument, for values holding characters that a shell-like reading of quotes would
\* treat specially (backslashes alone and doubled, $ ~ # ; & | ` ! * ? { } and the other quote character): bare,
\* single- and double-quoted spellings give what the bare spelling gives (the specification is asked for the
\* bare one; a value the bare spelling cannot carry is skipped)
QuoteKws == << Cp("-name"), Cp("-regex"), Cp("-ipath"), Cp("-fprint"), Cp("-xattr"), Cp("-pool"), Cp("-printf"), Cp("-fls") >>
QuoteVals == << Cp("a\\\\b"), Cp("\\\\"), Cp("a\\b"), Cp("\\\\\\\\x"), Cp("a\\"), Cp("x$y"), Cp("$HOME"), Cp("~a"), Cp("a#b"), Cp("#"), Cp("a;b"), Cp("a&b"),
               Cp("a|b"), Cp("`x`"), Cp("!x"), Cp("*"), Cp("a?"), Cp("{}"), Cp("{a,b}"), Cp("a\\nb"), Cp("\\t"), Cp("a=b"), Cp("-x"), Cp("--"), Cp("@"), Cp("a,b"),
               Cp("x\\'y"), Cp("a\\\"b"), Cp("^a$"), Cp("[a]"), Cp("a%%b"), Cp("<a>") >>
EmitQuoteSweep ==
  vSeq = <<>> =>
    \A k \in 1..Len(QuoteKws) : \A v \in 1..Len(QuoteVals) :
      LET val == QuoteVals[v]
          pre == QuoteKws[k] \o <<cSP>>
          tail == IF QuoteKws[k] = Cp("-xattr") THEN <<>> ELSE <<>>
          bare == pre \o val
          canon == ParseText(bare)
      IN canon.st = "ok" =>
           /\ PrintT(ToJson([i |-> bare, e |-> canon, tag |-> "C06"]))
           /\ (~HasChar(val, cSQ) => PrintT(ToJson([i |-> pre \o <<cSQ>> \o val \o <<cSQ>>, e |-> canon, tag |-> "C06"])))
           /\ (~HasChar(val, cDQ) => PrintT(ToJson([i |-> pre \o <<cDQ>> \o val \o <<cDQ>>, e |-> canon, tag |-> "C06"])))
           /\ (~HasChar(val, cDQ) => PrintT(ToJson([i |-> Cp("( ") \o pre \o <<cDQ>> \o val \o <<cDQ>> \o Cp(" ) -o -true"),
                                                     e |-> ParseText(Cp("( ") \o bare \o Cp(" ) -o -true")), tag |-> "C06"])))
\* the same special values, bare, with every word on its own line (LF, CR LF) and indented (a reader that treats
\* "# ..." lines as comments, or joins lines ending in a backslash, changes what the words mean)
EmitLines ==
  vSeq = <<>> =>
    \A k \in 1..Len(QuoteKws) : \A v \in 1..Len(QuoteVals) : \A sep \in {<<cLF>>, <<cCR, cLF>>, <<cLF, cSP, cSP>>, <<cSP, cLF>>} :
      LET val == QuoteVals[v]
          canon == ParseText(QuoteKws[k] \o <<cSP>> \o val \o Cp(" -o -true"))
          txt == QuoteKws[k] \o sep \o val \o sep \o Cp("-o") \o sep \o Cp("-true")
      IN canon.st = "ok" => PrintT(ToJson([i |-> txt, e |-> canon, tag |-> "C06"]))
\* LENGTH: one long argument (lengths around the usual buffer sizes) in the three quoting styles, and redundant
\* parentheses nested to depths around the usual limits; expected = what the plain spelling gives
Rep(c, n) == [i \in 1..n |-> c]
ArgLens == {100, 255, 256, 257, 1000, 1023, 1024, 1025, 2048, 4095, 4096, 4097, 5000}
EmitLongArgs ==
  vSeq = <<>> =>
    \A n \in ArgLens : \A kw \in {Cp("-name "), Cp("-regex "), Cp("-printf ")} :
      LET val == Rep(97, n - 2) \o <<42, 98>>
          canon == ParseText(kw \o val)
      IN /\ PrintT(ToJson([i |-> kw \o val, e |-> canon, tag |-> "C06"]))
         /\ PrintT(ToJson([i |-> kw \o <<cSQ>> \o val \o <<cSQ>>, e |-> canon, tag |-> "C06"]))
         /\ PrintT(ToJson([i |-> kw \o <<cDQ>> \o val \o <<cDQ>> \o Cp(" "), e |-> canon, tag |-> "C06"]))
ParenDepths == {10, 32, 33, 63, 64, 65, 100, 127, 128, 129, 150, 151, 200, 250}
RECURSIVE LeftNest(_)
LeftNest(n) == IF n = 0 THEN Cp("-name c0") ELSE Cp("( ") \o LeftNest(n - 1) \o Cp(" -o -name c1 )")
EmitDeepParens ==
  vSeq = <<>> =>
    \A n \in ParenDepths :
      LET inner == Cp("-name x -o -print")
          canon == ParseText(Cp("( ") \o inner \o Cp(" )"))
          txt == Flatten(Rep(Cp("( "), n)) \o inner \o Flatten(Rep(Cp(" )"), n))
          tight == Rep(cLP, n) \o inner \o Rep(cRP, n)
      IN /\ PrintT(ToJson([i |-> txt, e |-> canon, tag |-> "C06"]))
         /\ PrintT(ToJson([i |-> tight, e |-> canon, tag |-> "C06"]))
         /\ (n <= 100 => PrintT(ToJson([i |-> LeftNest(n), e |-> ParseText(LeftNest(n)), tag |-> "C06"])))
InvBlank == vSeq = <<>> => \A s \in BlankStrs : ParseText(s).st = "ok" /\ ParseText(s).t = TrueNode
=============================================================================
