-------------------------------- MODULE Ast --------------------------------
(***************************************************************************)
(* The tree datatype and its query helpers (property C19).                 *)
(* Trees are records tagged by k:                                          *)
(*   operators  and/or/list (l, r), not/prec (e)                           *)
(*   tests      true, false, name(s), uid(cmp, n), size(cmp, n, u), ...    *)
(*   actions    print, print0, printf(f), fprint(s), fprint0(s),           *)
(*              fprintf(s, f), fls(s), ls, printfid, prune, quit,          *)
(*              defaultprint                                               *)
(*   options    g_depth, g_maxdepth(n), g_mindepth(n), g_threads(n), xdev  *)
(* Each helper is defined twice: recursively, and over the set of nodes.   *)
(***************************************************************************)
EXTENDS Front

IsBinary(t) == t.k \in {"and", "or", "list"}
IsUnary(t)  == t.k \in {"not", "prec"}

RECURSIVE HasAction(_)
HasAction(t) ==
  IF IsBinary(t) THEN HasAction(t.l) \/ HasAction(t.r)
  ELSE IF IsUnary(t) THEN HasAction(t.e)
  ELSE t.k \in ActionKinds

NlEsc == EEsc("n")
FramedLeaf(t) ==
  \/ t.k \in {"print0", "fls", "fprint", "fprint0", "fprintf"}
  \/ (t.k = "printf" /\ t.f # <<>> /\ t.f[Len(t.f)] # NlEsc)

RECURSIVE NeedsFramed(_)
NeedsFramed(t) ==
  IF IsBinary(t) THEN NeedsFramed(t.l) \/ NeedsFramed(t.r)
  ELSE IF IsUnary(t) THEN NeedsFramed(t.e)
  ELSE FramedLeaf(t)

\* second formulation: over the set of all nodes of the tree
RECURSIVE Nodes(_)
Nodes(t) ==
  IF IsBinary(t) THEN {t} \cup Nodes(t.l) \cup Nodes(t.r)
  ELSE IF IsUnary(t) THEN {t} \cup Nodes(t.e)
  ELSE {t}
LeafNodes(t) == {n \in Nodes(t) : ~IsBinary(n) /\ ~IsUnary(n)}
HasAction2(t) == \E n \in LeafNodes(t) : n.k \in ActionKinds
NeedsFramed2(t) == \E n \in LeafNodes(t) : FramedLeaf(n)

\* a fixed enumeration of a finite set (order irrelevant but deterministic within a run)
RECURSIVE SetToSeqL(_)
SetToSeqL(S) == IF S = {} THEN <<>> ELSE LET x == CHOOSE x \in S : TRUE IN <<x>> \o SetToSeqL(S \ {x})

RECURSIVE TreeSize(_)
TreeSize(t) == IF IsBinary(t) THEN 1 + TreeSize(t.l) + TreeSize(t.r)
               ELSE IF IsUnary(t) THEN 1 + TreeSize(t.e) ELSE 1

\* unit tables (C19): bytes per size unit, seconds per time unit
SizeUnitNames == <<"c", "w", "b", "k", "M", "G", "T">>
TimeUnitNames == <<"s", "m", "h", "d">>
\* byte size of a size literal, defined when it fits 64 bits
ByteSize(n, u) == BMul(n, SizeMult(u))
ByteSizeFits(n, u) == BLe(ByteSize(n, u), BMaxU64)
=============================================================================
