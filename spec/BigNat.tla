------------------------------- MODULE BigNat -------------------------------
(***************************************************************************)
(* Arbitrary-precision naturals as sequences of decimal digits, most       *)
(* significant first, normalised (no leading zero, zero is <<0>>).         *)
(* Needed because TLC integers are 32-bit while the properties C07, C02,   *)
(* C19 live at 2^32, 2^63 and 2^64.  Also a signed wrapper (Guile numbers). *)
(***************************************************************************)
EXTENDS Chars, Integers

RECURSIVE BNorm(_)
BNorm(d) == IF Len(d) > 1 /\ d[1] = 0 THEN BNorm(Tail(d)) ELSE IF d = <<>> THEN <<0>> ELSE d

BZero == <<0>>
BOne  == <<1>>
BIsZero(a) == a = <<0>>

\* code points of a digit string -> BigNat ; BigNat -> code points
BFromCp(cps) == BNorm([i \in 1..Len(cps) |-> cps[i] - 48])
BToCp(a) == [i \in 1..Len(a) |-> a[i] + 48]

RECURSIVE BFromIntR(_)
BFromIntR(n) == IF n < 10 THEN <<n>> ELSE Append(BFromIntR(n \div 10), n % 10)
BFromInt(n) == BFromIntR(n)

\* Only for values known to fit a TLC integer (< 2^31)
RECURSIVE BToIntR(_, _)
BToIntR(a, acc) == IF a = <<>> THEN acc ELSE BToIntR(Tail(a), acc * 10 + Head(a))
BToInt(a) == BToIntR(a, 0)
BFitsInt(a) == Len(a) <= 9
\* below 2 * 10^9 < 2^31: still a TLC integer (epoch seconds are ten-digit numbers starting with 1)
BFitsInt2(a) == Len(a) <= 9 \/ (Len(a) = 10 /\ a[1] = 1)

\* comparison: -1, 0, 1
RECURSIVE BCmpSame(_, _, _)
BCmpSame(a, b, i) ==
  IF i > Len(a) THEN 0
  ELSE IF a[i] < b[i] THEN -1 ELSE IF a[i] > b[i] THEN 1 ELSE BCmpSame(a, b, i + 1)
BCmp(a, b) ==
  IF Len(a) < Len(b) THEN -1 ELSE IF Len(a) > Len(b) THEN 1 ELSE BCmpSame(a, b, 1)
BLt(a, b) == BCmp(a, b) = -1
BLe(a, b) == BCmp(a, b) <= 0
BGt(a, b) == BCmp(a, b) = 1
BGe(a, b) == BCmp(a, b) >= 0
BEq(a, b) == a = b

\* digit i counted from the least significant end (1-based), 0 beyond the length
BDig(a, i) == IF i > Len(a) THEN 0 ELSE a[Len(a) - i + 1]
Max2(x, y) == IF x > y THEN x ELSE y

RECURSIVE BAddR(_, _, _, _, _)
\* builds the result least-significant-first in acc (reversed at the end)
BAddR(a, b, i, carry, acc) ==
  IF i > Max2(Len(a), Len(b))
  THEN IF carry = 0 THEN acc ELSE <<carry>> \o acc
  ELSE LET s == BDig(a, i) + BDig(b, i) + carry
       IN  BAddR(a, b, i + 1, s \div 10, <<s % 10>> \o acc)
BAddBig(a, b) == BNorm(BAddR(a, b, 1, 0, <<>>))
\* (machine arithmetic where the operands and the result fit a TLC integer: same functions, much faster;
\*  spec/tests/TestSpec.tla compares each fast path with the digit-sequence definition)
BAdd(a, b) == IF Len(a) <= 9 /\ Len(b) <= 9 THEN BFromInt(BToInt(a) + BToInt(b)) ELSE BAddBig(a, b)

RECURSIVE BSubR(_, _, _, _, _)
\* requires a >= b
BSubR(a, b, i, borrow, acc) ==
  IF i > Len(a) THEN acc
  ELSE LET s == BDig(a, i) - BDig(b, i) - borrow
       IN  IF s < 0 THEN BSubR(a, b, i + 1, 1, <<s + 10>> \o acc)
                    ELSE BSubR(a, b, i + 1, 0, <<s>> \o acc)
BSubBig(a, b) == BNorm(BSubR(a, b, 1, 0, <<>>))
BSub(a, b) == IF BFitsInt2(a) /\ BFitsInt2(b) THEN BFromInt(BToInt(a) - BToInt(b)) ELSE BSubBig(a, b)

\* multiply by a small integer k (k < 2^26 so that 9*k+carry fits)
RECURSIVE BMulSmallR(_, _, _, _, _)
BMulSmallR(a, k, i, carry, acc) ==
  IF i > Len(a)
  THEN IF carry = 0 THEN acc ELSE BFromInt(carry) \o acc
  ELSE LET s == BDig(a, i) * k + carry
       IN  BMulSmallR(a, k, i + 1, s \div 10, <<s % 10>> \o acc)
BMulSmall(a, k) == BNorm(BMulSmallR(a, k, 1, 0, <<>>))

\* a * 10^n
BShift(a, n) == IF BIsZero(a) THEN a ELSE a \o [i \in 1..n |-> 0]

RECURSIVE BMulR(_, _, _, _)
BMulR(a, b, i, acc) ==
  IF i > Len(b) THEN acc
  ELSE BMulR(a, b, i + 1, BAdd(acc, BShift(BMulSmall(a, BDig(b, i)), i - 1)))
BMulBig(a, b) == BMulR(a, b, 1, BZero)
BMul(a, b) == IF Len(a) + Len(b) <= 9 THEN BFromInt(BToInt(a) * BToInt(b)) ELSE BMulBig(a, b)

\* long division: quotient and remainder, b # 0
RECURSIVE BDigitQ(_, _, _)
\* largest q in 0..9 with q*b <= r
BDigitQ(r, b, q) == IF q < 9 /\ BLe(BMulSmall(b, q + 1), r) THEN BDigitQ(r, b, q + 1) ELSE q
RECURSIVE BDivR(_, _, _, _, _)
BDivR(a, b, i, rem, quo) ==
  IF i > Len(a) THEN <<BNorm(quo), rem>>
  ELSE LET r == BNorm(rem \o <<a[i]>>)
           q == BDigitQ(r, b, 0)
       IN  BDivR(a, b, i + 1, BSub(r, BMulSmall(b, q)), Append(quo, q))
BDivModBig(a, b) == BDivR(a, b, 1, BZero, <<>>)
BDivMod(a, b) == IF BFitsInt2(a) /\ BFitsInt2(b) THEN <<BFromInt(BToInt(a) \div BToInt(b)), BFromInt(BToInt(a) % BToInt(b))>>
                 ELSE BDivModBig(a, b)
BDiv(a, b) == BDivMod(a, b)[1]
BMod(a, b) == BDivMod(a, b)[2]

\* 2^n and frequently used constants
RECURSIVE BPow2(_)
BPow2(n) == IF n = 0 THEN BOne ELSE BMulSmall(BPow2(n - 1), 2)
B2p32 == BPow2(32)
B2p64 == BPow2(64)
BMaxU32 == BSub(B2p32, BOne)
BMaxU64 == BSub(B2p64, BOne)

\* octal / to-base rendering (for ~o): digits of a in base k (k <= 16) as small ints
RECURSIVE BToBaseR(_, _, _)
BToBaseR(a, k, acc) ==
  IF BIsZero(a) THEN (IF acc = <<>> THEN <<0>> ELSE acc)
  ELSE LET qr == BDivMod(a, BFromInt(k)) IN BToBaseR(qr[1], k, <<BToInt(qr[2])>> \o acc)
BToBase(a, k) == BToBaseR(a, k, <<>>)

(***************************************************************************)
(* Signed integers: [neg |-> BOOLEAN, mag |-> BigNat], zero is never neg.   *)
(***************************************************************************)
ZMk(neg, mag) == [neg |-> neg /\ ~BIsZero(mag), mag |-> mag]
ZNat(a) == ZMk(FALSE, a)
ZInt(n) == IF n < 0 THEN ZMk(TRUE, BFromInt(0 - n)) ELSE ZMk(FALSE, BFromInt(n))
ZNeg(z) == ZMk(~z.neg, z.mag)
ZAdd(x, y) ==
  IF x.neg = y.neg THEN ZMk(x.neg, BAdd(x.mag, y.mag))
  ELSE IF BGe(x.mag, y.mag) THEN ZMk(x.neg, BSub(x.mag, y.mag))
  ELSE ZMk(y.neg, BSub(y.mag, x.mag))
ZSub(x, y) == ZAdd(x, ZNeg(y))
ZMul(x, y) == ZMk(x.neg # y.neg, BMul(x.mag, y.mag))
\* truncating division like Guile's quotient
ZQuot(x, y) == ZMk(x.neg # y.neg, BDiv(x.mag, y.mag))
ZCmp(x, y) ==
  IF x.neg /\ ~y.neg THEN -1 ELSE IF ~x.neg /\ y.neg THEN 1
  ELSE IF x.neg THEN BCmp(y.mag, x.mag) ELSE BCmp(x.mag, y.mag)
\* bitwise and of two naturals (via base-2 digits); only for non-negative values
RECURSIVE BAndR(_, _, _, _)
BAndR(xa, xb, i, acc) ==
  IF i > Len(xa) \/ i > Len(xb) THEN acc
  ELSE LET da == xa[Len(xa) - i + 1]  db == xb[Len(xb) - i + 1]
       IN  BAndR(xa, xb, i + 1, <<(IF da = 1 /\ db = 1 THEN 1 ELSE 0)>> \o acc)
RECURSIVE BFromBaseR(_, _, _)
BFromBaseR(ds, k, acc) ==
  IF ds = <<>> THEN acc ELSE BFromBaseR(Tail(ds), k, BAdd(BMulSmall(acc, k), BFromInt(Head(ds))))
BFromBase(ds, k) == BFromBaseR(ds, k, BZero)
BAndBig(a, b) ==
  LET r == BAndR(BToBase(a, 2), BToBase(b, 2), 1, <<>>)
  IN  IF r = <<>> THEN BZero ELSE BFromBase(r, 2)
\* operands below 10^9 (file modes and masks): machine arithmetic, same function (TestSpec checks it against BAndBig)
RECURSIVE IAnd(_, _)
IAnd(x, y) == IF x = 0 \/ y = 0 THEN 0 ELSE (x % 2) * (y % 2) + 2 * IAnd(x \div 2, y \div 2)
BAnd(a, b) == IF Len(a) <= 9 /\ Len(b) <= 9 THEN BFromInt(IAnd(BToInt(a), BToInt(b))) ELSE BAndBig(a, b)
=============================================================================
