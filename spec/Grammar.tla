------------------------------ MODULE Grammar ------------------------------
(***************************************************************************)
(* Tokens -> tree (property C01), specified twice.                         *)
(*                                                                         *)
(* (i)  Climb: precedence climbing structured like precedence.rs           *)
(*      levels list > or > and > atom, left folds, a started construct     *)
(*      must finish (cut), the whole token list must be consumed.          *)
(*      Written left to right with an explicit position, each level one    *)
(*      operator; Grammar machine actions in MC_Grammar use ClimbStep.     *)
(* (ii) Decl: a declarative definition that does not follow the algorithm: *)
(*      the tree of a token sequence is obtained by splitting at the LAST  *)
(*      depth-0 operator of the LOWEST precedence present (',' then OR,    *)
(*      then AND where a juxtaposition counts as AND); '!' applies to the  *)
(*      factor that follows; a parenthesised group is its content.         *)
(*      "Last" is left associativity, "lowest first" is precedence.        *)
(* TLC checks Climb = Decl on every token sequence up to a bound, and that *)
(* every tree printed with any redundant parentheses parses back (Print).  *)
(***************************************************************************)
EXTENDS Lexer

NAnd(l, r)  == [k |-> "and", l |-> l, r |-> r]
NOr(l, r)   == [k |-> "or", l |-> l, r |-> r]
NList(l, r) == [k |-> "list", l |-> l, r |-> r]
NNot(e)     == [k |-> "not", e |-> e]
NPrec(e)    == [k |-> "prec", e |-> e]
REJ == [rej |-> TRUE]
IsRej(x) == "rej" \in DOMAIN x

IsPrimTok(t) == t.tk = "prim"

(* ------------------------- (ii) declarative ---------------------------- *)
\* Depths(toks)[i] = nesting depth BEFORE token i (number of unclosed "(" among toks[1..i-1]),
\* for i in 1..Len(toks)+1; once the depth went negative it stays -1.
RECURSIVE DepthsR(_, _, _, _)
DepthsR(toks, i, d, acc) ==
  IF i > Len(toks) THEN acc
  ELSE LET d2 == IF d < 0 THEN -1
                 ELSE IF toks[i].tk = "lp" THEN d + 1
                 ELSE IF toks[i].tk = "rp" THEN d - 1
                 ELSE d
       IN DepthsR(toks, i + 1, d2, Append(acc, d2))
Depths(toks) == DepthsR(toks, 1, 0, <<0>>)

BalancedD(toks, ds) ==
  /\ \A i \in 1..(Len(toks) + 1) : ds[i] >= 0
  /\ ds[Len(toks) + 1] = 0
Balanced(toks) == BalancedD(toks, Depths(toks))

\* positions of operator `name` at depth 0
TopLevelD(toks, ds, name) == {i \in 1..Len(toks) : toks[i].tk = name /\ ds[i] = 0}
MaxOf(S) == CHOOSE x \in S : \A y \in S : y <= x

\* start of the last factor of an AND-level sequence whose last token is a primary or ")"
RECURSIVE SkipNots(_, _)
SkipNots(toks, j) == IF j > 1 /\ toks[j - 1].tk = "not" THEN SkipNots(toks, j - 1) ELSE j
\* the "(" matching a final ")" of a balanced sequence: the last "(" opened at depth 0
MatchingOpenD(toks, ds) == MaxOf({i \in 1..Len(toks) : toks[i].tk = "lp" /\ ds[i] = 0})

RECURSIVE Decl(_)
Decl(toks) ==
  LET ds == Depths(toks) IN
  IF toks = <<>> \/ ~BalancedD(toks, ds) THEN REJ
  ELSE LET commas == TopLevelD(toks, ds, "comma")
           ors == TopLevelD(toks, ds, "or")
           n == Len(toks)
       IN
  IF commas # {} THEN
     LET i == MaxOf(commas)
         l == Decl(SubSeq(toks, 1, i - 1))
         r == Decl(SubSeq(toks, i + 1, n))
     IN IF IsRej(l) \/ IsRej(r) THEN REJ ELSE NList(l, r)
  ELSE IF ors # {} THEN
     LET i == MaxOf(ors)
         l == Decl(SubSeq(toks, 1, i - 1))
         r == Decl(SubSeq(toks, i + 1, n))
     IN IF IsRej(l) \/ IsRej(r) THEN REJ ELSE NOr(l, r)
  ELSE
     \* AND level: factor (AND? factor)*
     IF ~(IsPrimTok(toks[n]) \/ toks[n].tk = "rp") THEN REJ
     ELSE LET a == IF IsPrimTok(toks[n]) THEN n ELSE MatchingOpenD(toks, ds)
              j == SkipNots(toks, a)
          IN
          IF j = 1 THEN
             \* a single factor
             IF toks[1].tk = "not" THEN
                LET e == Decl(Tail(toks)) IN IF IsRej(e) THEN REJ ELSE NNot(e)
             ELSE IF toks[1].tk = "lp" THEN Decl(SubSeq(toks, 2, n - 1))
             ELSE toks[1].node
          ELSE
             LET lend == IF toks[j - 1].tk = "and" THEN j - 2 ELSE j - 1
                 l == Decl(SubSeq(toks, 1, lend))
                 r == Decl(SubSeq(toks, j, n))
             IN IF IsRej(l) \/ IsRej(r) THEN REJ ELSE NAnd(l, r)

(* ------------------------ (i) precedence climbing ---------------------- *)
\* Every level returns [st |-> "ok", t, p] (tree, next position), [st |-> "back"] (no match,
\* nothing consumed: the caller may try something else) or [st |-> "cut"] (a started
\* construct did not finish: the whole parse fails).
TokAt(toks, p) == IF p <= Len(toks) THEN toks[p].tk ELSE "eof"

RECURSIVE CList(_, _), COr(_, _), CAnd(_, _), CAtom(_, _), CListLoop(_, _, _), COrLoop(_, _, _), CAndLoop(_, _, _)

CAtom(toks, p) ==
  LET t == TokAt(toks, p) IN
  IF t = "prim" THEN [st |-> "ok", t |-> toks[p].node, p |-> p + 1]
  ELSE IF t = "not" THEN
     LET a == CAtom(toks, p + 1) IN
     IF a.st = "ok" THEN [st |-> "ok", t |-> NNot(a.t), p |-> a.p] ELSE [st |-> "cut"]
  ELSE IF t = "lp" THEN
     LET l == CList(toks, p + 1) IN
     IF l.st # "ok" THEN [st |-> "cut"]
     ELSE IF TokAt(toks, l.p) = "rp" THEN [st |-> "ok", t |-> l.t, p |-> l.p + 1]
     ELSE [st |-> "cut"]
  ELSE [st |-> "back"]

CAndLoop(toks, acc, p) ==
  IF TokAt(toks, p) = "and" THEN
     LET a == CAtom(toks, p + 1) IN
     IF a.st = "ok" THEN CAndLoop(toks, NAnd(acc, a.t), a.p) ELSE [st |-> "cut"]
  ELSE LET a == CAtom(toks, p) IN
     IF a.st = "ok" THEN CAndLoop(toks, NAnd(acc, a.t), a.p)
     ELSE IF a.st = "cut" THEN [st |-> "cut"]
     ELSE [st |-> "ok", t |-> acc, p |-> p]
CAnd(toks, p) ==
  LET a == CAtom(toks, p) IN IF a.st # "ok" THEN a ELSE CAndLoop(toks, a.t, a.p)

COrLoop(toks, acc, p) ==
  IF TokAt(toks, p) = "or" THEN
     LET a == CAnd(toks, p + 1) IN
     IF a.st = "ok" THEN COrLoop(toks, NOr(acc, a.t), a.p) ELSE [st |-> "cut"]
  ELSE [st |-> "ok", t |-> acc, p |-> p]
COr(toks, p) ==
  LET a == CAnd(toks, p) IN IF a.st # "ok" THEN a ELSE COrLoop(toks, a.t, a.p)

CListLoop(toks, acc, p) ==
  IF TokAt(toks, p) = "comma" THEN
     LET a == COr(toks, p + 1) IN
     IF a.st = "ok" THEN CListLoop(toks, NList(acc, a.t), a.p) ELSE [st |-> "cut"]
  ELSE [st |-> "ok", t |-> acc, p |-> p]
CList(toks, p) ==
  LET a == COr(toks, p) IN IF a.st # "ok" THEN a ELSE CListLoop(toks, a.t, a.p)

\* the entry point: the whole token list must be one list-level expression
Climb(toks) ==
  LET r == CList(toks, 1) IN
  IF r.st = "ok" /\ r.p = Len(toks) + 1 THEN r.t ELSE REJ

(* ------------------------------ printing ------------------------------- *)
\* level of a tree node: 0 list, 1 or, 2 and, 3 not/primary
Level(t) == IF t.k = "list" THEN 0 ELSE IF t.k = "or" THEN 1 ELSE IF t.k = "and" THEN 2 ELSE 3
Paren(ts) == <<TokOp("lp")>> \o ts \o <<TokOp("rp")>>

\* Canonical token sequence of a tree: parentheses only where required.
\* A left operand needs parentheses when its level is lower than the operator's; a right
\* operand when its level is lower OR EQUAL (left associativity).  andTok = <<>> for implicit AND.
RECURSIVE Unparse(_, _)
Unparse(t, andTok) ==
  LET wrap(x, need) == IF need THEN Paren(Unparse(x, andTok)) ELSE Unparse(x, andTok) IN
  IF t.k = "list" THEN wrap(t.l, FALSE) \o <<TokOp("comma")>> \o wrap(t.r, Level(t.r) <= 0)
  ELSE IF t.k = "or" THEN wrap(t.l, Level(t.l) < 1) \o <<TokOp("or")>> \o wrap(t.r, Level(t.r) <= 1)
  ELSE IF t.k = "and" THEN wrap(t.l, Level(t.l) < 2) \o andTok \o wrap(t.r, Level(t.r) <= 2)
  ELSE IF t.k = "not" THEN <<TokOp("not")>> \o wrap(t.e, Level(t.e) < 3)
  ELSE <<TokPrim(t)>>

\* structural facts implied by "unique tree with precedence and left associativity"
RECURSIVE NoPrecNode(_)
NoPrecNode(t) ==
  IF t.k \in {"and", "or", "list"} THEN NoPrecNode(t.l) /\ NoPrecNode(t.r)
  ELSE IF t.k = "not" THEN NoPrecNode(t.e)
  ELSE t.k # "prec"
=============================================================================
