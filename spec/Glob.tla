-------------------------------- MODULE Glob --------------------------------
(***************************************************************************)
(* fnmatch(3) without flags: '*' any run (including '/'), '?' any one      *)
(* character, '[...]' bracket expression with ranges and '!'/'^' negation, *)
(* backslash quotes the next character.  Used by FindSem (-name, -path,    *)
(* -iname, -ipath, -xattr-match) and by the runtime model's fnmatch?.      *)
(***************************************************************************)
EXTENDS Chars

\* bracket expression starting at p[i] = '['; returns [ok, neg, next, S-test] via helper below
\* index of the closing ']' (a ']' right after '[' or '[!' is literal), 0 if none
RECURSIVE BrClose(_, _, _)
BrClose(p, j, first) ==
  IF j > Len(p) THEN 0
  ELSE IF p[j] = cRB /\ ~first THEN j
  ELSE BrClose(p, j + 1, FALSE)

\* does character c match the bracket body p[a..b] (without '[' ']' and without the negation mark)?
RECURSIVE BrBody(_, _, _, _)
BrBody(p, a, b, c) ==
  IF a > b THEN FALSE
  ELSE IF a + 2 <= b /\ p[a + 1] = cMINUS THEN (c >= p[a] /\ c <= p[a + 2]) \/ BrBody(p, a + 3, b, c)
  ELSE c = p[a] \/ BrBody(p, a + 1, b, c)

RECURSIVE FnMatchAt(_, _, _, _)
FnMatchAt(p, i, s, j) ==
  IF i > Len(p) THEN j > Len(s)
  ELSE IF p[i] = cSTAR THEN
     \E k \in j..(Len(s) + 1) : FnMatchAt(p, i + 1, s, k)
  ELSE IF j > Len(s) THEN FALSE
  ELSE IF p[i] = cQM THEN FnMatchAt(p, i + 1, s, j + 1)
  ELSE IF p[i] = cLB THEN
     LET neg == i + 1 <= Len(p) /\ p[i + 1] \in {cBANG, 94}
         a == IF neg THEN i + 2 ELSE i + 1
         close == BrClose(p, a, TRUE)
     IN IF close = 0 THEN s[j] = cLB /\ FnMatchAt(p, i + 1, s, j + 1)   \* no closing bracket: literal '['
        ELSE (BrBody(p, a, close - 1, s[j]) # neg) /\ FnMatchAt(p, close + 1, s, j + 1)
  ELSE IF p[i] = cBSL /\ i + 1 <= Len(p) THEN s[j] = p[i + 1] /\ FnMatchAt(p, i + 2, s, j + 1)
  ELSE s[j] = p[i] /\ FnMatchAt(p, i + 1, s, j + 1)

FnMatch(p, s) == FnMatchAt(p, 1, s, 1)
LowerSeq(s) == [i \in 1..Len(s) |-> FoldLower(s[i])]
FnMatchCi(p, s) == FnMatch(Eager(LowerSeq(p)), Eager(LowerSeq(s)))
HasGlobChar(p) == \E i \in 1..Len(p) : p[i] \in {cSTAR, cQM, cLB}

\* dirname of a path (no trailing-slash subtleties: paths in the file universe are normal)
RECURSIVE LastSlash(_, _)
LastSlash(s, i) == IF i = 0 THEN 0 ELSE IF s[i] = cSLASH THEN i ELSE LastSlash(s, i - 1)
Dirname(s) == LET k == LastSlash(s, Len(s)) IN IF k = 0 THEN <<cDOT>> ELSE IF k = 1 THEN <<cSLASH>> ELSE SubSeq(s, 1, k - 1)
=============================================================================
