--------------------------------- MODULE Api ---------------------------------
(***************************************************************************)
(* The API lifecycle as a machine over call histories (C03, C15, C17, C20). *)
(* Events (one per public call, logged at its return):                     *)
(*   Parse(text)            -> ok(options, tree) | err(message)            *)
(*   Compile(tree, options) -> ok(object) | err(message), within [t0, t1]  *)
(*   Render(object, path)   -> text          IoMap(object) -> table        *)
(* State of the machine: memoParse (text -> result), memoCompile (tree,    *)
(* options -> normalised object), clock.  The specification says:          *)
(*   Total      every event's outcome is ok or err (never panic/timeout)   *)
(*   ParseFun   Parse is a function of its argument                        *)
(*   CompileFun Compile is a function of its argument up to the embedded   *)
(*              epoch, which lies in [t0, t1]                              *)
(*   RenderFun  Render is a function of (object, path); two renderings     *)
(*              differ in exactly one string literal, the device argument  *)
(*              of the scan call, which decodes to the path                *)
(*   Pure       IoMap never changes; nothing mutates a compiled object     *)
(* Because the log is a constant, the memo tables are read off the log     *)
(* (the first event with the same argument) instead of being carried in    *)
(* the state; ApiNext in Trace_Api consumes one event per step.            *)
(***************************************************************************)
EXTENDS Backend

Outcomes == {"ok", "err"}
Total(st) == st \in Outcomes

\* ---- epoch normalisation ----
RECURSIVE TimeTests(_)
TimeTests(t) ==
  IF IsBinary(t) THEN TimeTests(t.l) + TimeTests(t.r)
  ELSE IF IsUnary(t) THEN TimeTests(t.e)
  ELSE IF t.k \in {"atime", "ctime", "mtime"} THEN 1 ELSE 0

InWindow(z, t0, t1) == ~z.neg /\ BGe(z.mag, t0) /\ BLe(z.mag, t1)
NowSym == [sym |-> Cp("{NOW}")]
RECURSIVE NormData(_, _, _)
NormData(d, t0, t1) ==
  IF IsNum(d) THEN (IF InWindow(d.num, t0, t1) THEN NowSym ELSE d)
  ELSE IF IsList(d) THEN [list |-> [i \in 1..Len(d.list) |-> NormData(d.list[i], t0, t1)]]
  ELSE d
RECURSIVE CountNow(_)
CountNow(d) ==
  IF d = NowSym THEN 1
  ELSE IF IsList(d) THEN LET RECURSIVE S(_)  S(i) == IF i > Len(d.list) THEN 0 ELSE CountNow(d.list[i]) + S(i + 1) IN S(1)
  ELSE 0
\* force nested lazily-built lists into plain tuples so that equality is structural
RECURSIVE Plain(_)
Plain(d) == IF IsList(d) THEN [list |-> SubSeq([i \in 1..Len(d.list) |-> Plain(d.list[i])], 1, Len(d.list))] ELSE d

\* normalised program of a successful compile record c (first rendering)
NormProgram(c) ==
  LET rd == ReadAll(c.renders[1].text) IN
  IF ~rd.ok THEN [ok |-> FALSE]
  ELSE LET nd == [i \in 1..Len(rd.data) |-> Plain(NormData(rd.data[i], c.t0, c.t1))]
       IN [ok |-> TRUE, data |-> Eager(nd), nows |-> CountNow([list |-> Eager(nd)])]

\* ---- comparing two compile results for the same (tree, options) ----
CompileDiffKinds(t, a, b) ==
  IF a.st # b.st THEN <<"compile-outcome-differs">>
  ELSE IF a.st = "err" THEN (IF a.msg = b.msg THEN <<>> ELSE <<"compile-error-differs">>)
  ELSE IF a.st = "panic" THEN <<>>
  ELSE (IF a.iomaps # b.iomaps THEN <<"iomap-differs">> ELSE <<>>)
       \o (IF TimeTests(t) = 0 THEN
              (IF [i \in 1..Len(a.renders) |-> a.renders[i].text] = [i \in 1..Len(b.renders) |-> b.renders[i].text] THEN <<>> ELSE <<"program-differs">>)
           ELSE LET na == NormProgram(a)  nb == NormProgram(b) IN
                \* an unreadable program is C04's subject; here only DIFFERENCES count
                IF ~na.ok \/ ~nb.ok THEN (IF na.ok = nb.ok THEN <<>> ELSE <<"program-differs">>)
                ELSE (IF na.data = nb.data THEN <<>> ELSE <<"program-differs">>)
                     \o (IF na.nows = TimeTests(t) /\ nb.nows = TimeTests(t) THEN <<>> ELSE <<"epoch-outside-compile-window">>))

\* the embedded second lies inside the compile call (single record)
EpochKinds(t, c) ==
  IF c.st # "ok" \/ TimeTests(t) = 0 THEN <<>>
  ELSE LET n == NormProgram(c) IN
       IF ~n.ok THEN <<>>
       ELSE IF n.nows = TimeTests(t) THEN <<>> ELSE <<"epoch-outside-compile-window">>

\* ---- renderings of one compiled object (C20) ----
RenderKinds(c) ==
  IF c.st # "ok" THEN <<>>
  ELSE LET n == Len(c.renders)
           oks == \A j \in 1..n : c.renders[j].st = "ok"
       IN IF ~oks THEN <<"render-panic">>
          ELSE LET rd == [j \in 1..n |-> ReadAll(c.renders[j].text)] IN
            IF \E j \in 1..n : ~rd[j].ok THEN <<"malformed-program">>
            ELSE LET sk == [j \in 1..n |-> [i \in 1..Len(rd[j].data) |-> Plain(Skeleton(rd[j].data[i]))]]
                     ss == [j \in 1..n |-> Flatten([i \in 1..Len(rd[j].data) |-> Strings(rd[j].data[i])])]
                     \* positions at which some rendering differs from the first
                     diffPos == {p \in 1..Len(ss[1]) : \E j \in 1..n : Len(ss[j]) = Len(ss[1]) /\ ss[j][p] # ss[1][p]}
                     prep == [j \in 1..n |-> Prepare(c.renders[j].text)]
                 IN (IF \E j \in 1..n : Eager(sk[j]) # Eager(sk[1]) THEN <<"render-structure-differs">> ELSE <<>>)
                    \o (IF \E j \in 1..n : Len(ss[j]) # Len(ss[1]) THEN <<"render-string-count-differs">>
                        ELSE IF Cardinality(diffPos) > 1 THEN <<"render-differs-in-more-than-one-place">>
                        ELSE IF \E p \in diffPos : \E j \in 1..n : ss[j][p] # c.renders[j].path THEN <<"render-difference-is-not-the-path">>
                        ELSE <<>>)
                    \o (IF \E j \in 1..n : ~prep[j].ok \/ Len(prep[j].scans) # 1 \/ prep[j].scans[1].mdt # VStr(c.renders[j].path)
                        THEN <<"mdt-mismatch">> ELSE <<>>)
                    \o (IF \E j, k \in 1..n : c.renders[j].path = c.renders[k].path /\ c.renders[j].text # c.renders[k].text
                        THEN <<"same-path-different-text">> ELSE <<>>)
                    \o (IF \E j \in 1..Len(c.iomaps) : c.iomaps[j] # c.iomaps[1] THEN <<"iomap-changes-between-queries">> ELSE <<>>)
=============================================================================
