------------------------------- MODULE Codegen -------------------------------
(***************************************************************************)
(* The compile step as a design-level function of the specification:       *)
(*   Compile(tree, options, path) = [st |-> "ok", data, iomap] | [st |-> "err", who]  *)
(* structured like scheme/mod.rs + target_scheme.rs + manager.rs:          *)
(*   - refuse trees holding a construct the target cannot express          *)
(*   - pick the manager kind by NeedsFramed, add the implicit print        *)
(*   - walk the tree in pre-order, issuing Manager requests (MStep) and     *)
(*     building the policy body as S-expression DATA (the representation   *)
(*     SchemeRead produces), then the definitions from the manager state   *)
(* The result is an abstract program that SchemeEval can run.  It is used  *)
(* for model-level checks (MC_Codegen: the DESIGN is a valid translation,  *)
(* routes output correctly, binds names once and before use) and is NEVER  *)
(* compared textually with what the code emits.                            *)
(***************************************************************************)
EXTENDS Backend

Sy(s) == [sym |-> s]
St(s) == [str |-> s]
Li(s) == [list |-> s]
Nu(b) == [num |-> ZNat(b)]
Ch(c) == [chr |-> c]
Bo(b) == [bool |-> b]
App0(f) == Li(<<Sy(f)>>)

\* generated identifiers: %lf3:<kind>:<n>
WPrefix == Cp("%lf3:")
GenName(nm) == Sy(WPrefix \o Cp(nm[1]) \o <<cCOLON>> \o BToCp(BFromInt(nm[2])))
WLine == Cp("line")  WS == Cp("s")  WD == Cp("d")  WW == Cp("w")

CmpSym(c) == IF c = "gt" THEN nGt ELSE IF c = "lt" THEN nLt ELSE nEq
CmpForm(c, lhs, n) == Li(<<Sy(CmpSym(c)), lhs, Nu(n)>>)
nSize == Cp("size")  nMode == Cp("mode")
TimeAcc(t) == Cp(TimeField(t))
NumAcc(t) ==
  CASE t.k = "uid" -> Cp("uid") [] t.k = "gid" -> Cp("gid") [] t.k = "inum" -> Cp("ino") [] t.k = "links" -> Cp("nlink")
    [] t.k = "mirror-count" -> Cp("lov-mirror-count") [] t.k = "stripe-count" -> Cp("lov-stripe-count")

\* ---- format: template string and argument forms ----
EscTemplate(x) ==
  CASE x = "a" -> <<7>> [] x = "b" -> <<8>> [] x = "f" -> <<12>> [] x = "n" -> <<10>> [] x = "r" -> <<13>> [] x = "t" -> <<9>>
    [] x = "v" -> <<11>> [] x = "0" -> <<0>> [] x = "\\" -> <<92>>
Tilde2(s) == Flatten([i \in 1..Len(s) |-> IF s[i] = cTILDE THEN <<cTILDE, cTILDE>> ELSE <<s[i]>>])
FieldDirective(e) ==
  IF "c" \in DOMAIN e THEN (IF e.c = cAT THEN Cp("~d") ELSE Cp("~a"))
  ELSE IF e.f = "%" THEN <<cPCT>>
  ELSE IF e.f = "m" THEN Cp("~o")
  ELSE IF e.f = "S" THEN Cp("~f")
  ELSE IF e.f \in {"b", "s", "k", "G", "n", "i", "mirror-count", "projid", "stripe-count", "stripe-size", "U", "a", "c", "t"} THEN Cp("~d")
  ELSE Cp("~a")
FieldArg(e) ==
  LET n == e.f IN
  IF "c" \in DOMAIN e THEN
     LET acc == IF n = "A" THEN Cp("atime") ELSE IF n = "C" THEN Cp("ctime") ELSE Cp("mtime") IN
     IF e.c = cAT THEN <<App0(acc)>>
     ELSE <<Li(<<Sy(nStrftime), St(<<cPCT, e.c>>), Li(<<Sy(nLocaltime), App0(acc)>>)>>)>>
  ELSE IF n = "xattr" THEN <<Li(<<Sy(nOr), Li(<<Sy(nXattrRef), St(e.s)>>), St(<<>>)>>)>>
  ELSE CASE n = "%" -> <<>>
    [] n = "a" -> <<App0(Cp("atime"))>> [] n = "c" -> <<App0(Cp("ctime"))>> [] n = "t" -> <<App0(Cp("mtime"))>>
    [] n = "b" -> <<App0(Cp("blocks"))>>
    [] n = "k" -> <<Li(<<Sy(nQuotient), Li(<<Sy(nPlus), App0(Cp("blocks")), Nu(BOne)>>), Nu(BFromInt(2))>>)>>
    [] n = "s" -> <<App0(nSize)>>
    [] n = "f" -> <<App0(Cp("name"))>> [] n = "p" -> <<App0(Cp("absolute-path"))>> [] n = "P" -> <<App0(Cp("relative-path"))>>
    [] n = "h" -> <<Li(<<Sy(nCallRel), Sy(nDirname)>>)>> [] n = "H" -> <<App0(Cp("lipe-scan-client-mount-path"))>>
    [] n = "g" -> <<App0(Cp("group"))>> [] n = "G" -> <<App0(Cp("gid"))>> [] n = "u" -> <<App0(Cp("user"))>> [] n = "U" -> <<App0(Cp("uid"))>>
    [] n = "i" -> <<App0(Cp("ino"))>> [] n = "n" -> <<App0(Cp("nlink"))>>
    [] n = "m" -> <<Li(<<Sy(nLogand), App0(nMode), Nu(BFromInt(4095))>>)>>
    [] n = "y" -> <<Li(<<Sy(nTypeChar), App0(Cp("type"))>>)>>
    [] n = "S" -> <<Li(<<Sy(nDiv), Li(<<Sy(nTimes), Nu(BFromInt(512)), App0(Cp("blocks"))>>), App0(nSize)>>)>>
    [] n = "fid" -> <<App0(Cp("file-fid"))>> [] n = "projid" -> <<App0(Cp("projid"))>>
    [] n = "mirror-count" -> <<App0(Cp("lov-mirror-count"))>> [] n = "stripe-count" -> <<App0(Cp("lov-stripe-count"))>>
    [] n = "stripe-size" -> <<App0(Cp("lov-stripe-size"))>>
FormatForm(els) ==
  LET tmpl == Flatten([i \in 1..Len(els) |->
                 IF els[i].el = "lit" THEN Tilde2(els[i].s)
                 ELSE IF els[i].el = "esc" THEN (IF els[i].x = "ascii" THEN Tilde2(<<els[i].n>>) ELSE EscTemplate(els[i].x))
                 ELSE FieldDirective(els[i])])
      args == Flatten([i \in 1..Len(els) |-> IF els[i].el = "fld" THEN FieldArg(els[i]) ELSE <<>>])
  IN Li(<<Sy(nFormat), Bo(FALSE), St(tmpl)>> \o args)

\* ---- tests ----
TestForm(t) ==
  CASE t.k = "true" -> Bo(TRUE) [] t.k = "false" -> Bo(FALSE)
    [] t.k \in {"empty", "executable", "readable", "writable"} -> App0(Cp(t.k))
    [] t.k \in {"uid", "gid", "inum", "links", "mirror-count", "stripe-count"} -> CmpForm(t.cmp, App0(NumAcc(t)), t.n)
    [] t.k = "size" ->
         CmpForm(t.cmp, IF t.u = "c" THEN App0(nSize) ELSE Li(<<Sy(nRoundUp), App0(nSize), Nu(SizeMult(t.u))>>), BMul(t.n, SizeMult(t.u)))
    [] t.k = "pool" -> Li(<<Sy(nMember), St(t.s), App0(nLovPools)>>)
    [] t.k = "xattr" -> Li(<<Sy(nXattrP), St(t.s)>>)
    [] t.k = "xattr-match" ->
         IF HasGlobChar(t.s) \/ HasGlobChar(t.s2) \/ HasChar(t.s, cSQ) \/ HasChar(t.s2, cSQ)
         THEN Li(<<Sy(nXattrMatch), St(t.s), St(t.s2)>>)
         ELSE Li(<<Sy(nEqualP), Li(<<Sy(nXattrRef), St(t.s)>>), St(t.s2)>>)
    [] t.k = "type" ->
         LET one(c) == Li(<<Sy(nEq), Li(<<Sy(nLogand), App0(nMode), Nu(BFromInt(61440))>>), Nu(BFromInt(TypeBits(c)))>>) IN
         IF Len(t.ts) = 1 THEN one(t.ts[1]) ELSE Li(<<Sy(nOr)>> \o [i \in 1..Len(t.ts) |-> one(t.ts[i])])
    [] t.k = "perm" ->
         IF t.chk = "eq" THEN Li(<<Sy(nEq), Li(<<Sy(nLogand), App0(nMode), Nu(BFromInt(4095))>>), Nu(BFromInt(t.m))>>)
         ELSE IF t.chk = "all" THEN Li(<<Sy(nEq), Li(<<Sy(nLogand), App0(nMode), Nu(BFromInt(t.m))>>), Nu(BFromInt(t.m))>>)
         ELSE Li(<<Sy(nNot), Li(<<Sy(nEq), Li(<<Sy(nLogand), App0(nMode), Nu(BFromInt(t.m))>>), Nu(BZero)>>)>>)

\* ---- the walk: [code, st] ----
RECURSIVE Walk(_, _, _)
Walk(t, st, now) ==
  IF t.k \in {"and", "list", "or"} THEN
     LET a == Walk(t.l, st, now)
         b == Walk(t.r, a.st, now)
     IN [code |-> Li(<<Sy(IF t.k = "or" THEN nOr ELSE nAnd), a.code, b.code>>), st |-> b.st]
  ELSE IF t.k = "not" THEN LET a == Walk(t.e, st, now) IN [code |-> Li(<<Sy(nNot), a.code>>), st |-> a.st]
  ELSE IF t.k = "prec" THEN Walk(t.e, st, now)
  ELSE IF t.k \in {"atime", "ctime", "mtime"} THEN
     [code |-> CmpForm(t.cmp, Li(<<Sy(nQuotient), Li(<<Sy(nMinus), Nu(now), App0(TimeAcc(t))>>), Nu(BFromInt(TimeSecs(t.u)))>>), t.n), st |-> st]
  ELSE IF t.k \in {"name", "iname", "path", "ipath"} THEN
     LET s2 == MStep(st, Requests(t)[1]) IN
     [code |-> Li(<<Sy(IF t.k \in {"name", "iname"} THEN nCallName ELSE nCallRel), GenName(s2.ret)>>), st |-> s2]
  ELSE IF t.k \in {"print", "print0", "fprint", "fprint0"} THEN
     LET s2 == MStep(st, Requests(t)[1]) IN [code |-> Li(<<Sy(nCallRel), GenName(s2.ret)>>), st |-> s2]
  ELSE IF t.k \in {"printf", "fprintf"} THEN
     LET s2 == MStep(st, Requests(t)[1]) IN [code |-> Li(<<GenName(s2.ret), FormatForm(t.f)>>), st |-> s2]
  ELSE IF t.k = "defaultprint" THEN [code |-> App0(nPrintRel), st |-> st]
  ELSE IF t.k = "printfid" THEN [code |-> App0(nPrintFid), st |-> st]
  ELSE IF t.k = "quit" THEN [code |-> Li(<<Sy(nScanBreak), Nu(BZero)>>), st |-> st]
  ELSE [code |-> TestForm(t), st |-> st]

\* ---- definitions from the final manager state ----
TermDatum(term) == IF term = <<>> THEN Bo(FALSE) ELSE Ch(term[1])
PrinterKeyOf(st, n) == st.printers[CHOOSE i \in 1..Len(st.printers) : st.printers[i][2] = n][1]
MatchKeyOf(st, n) == st.matches[CHOOSE i \in 1..Len(st.matches) : st.matches[i][2] = n][1]
FileOfPort(st, n) ==
  LET hits == {i \in 1..Len(st.files) : st.files[i][2][1] = n} IN IF hits = {} THEN <<>> ELSE <<st.files[CHOOSE i \in hits : TRUE][1]>>
DefBinding(st, d) ==
  LET kind == d.name[1]  n == d.name[2] IN
  IF kind = "port" THEN
     LET f == FileOfPort(st, n) IN
     Li(<<GenName(d.name), IF f = <<>> THEN App0(nCurOut) ELSE Li(<<Sy(nOpenFile), St(f[1]), St(WW)>>)>>)
  ELSE IF kind = "mutex" THEN Li(<<GenName(d.name), App0(nMakeMutex)>>)
  ELSE IF kind = "frame" THEN
     Li(<<GenName(d.name), Li(<<Sy(nLambda), Li(<<Sy(WS), Sy(WD)>>),
           Li(<<Sy(nWithMutex), GenName(MName("mutex", 1)),
                Li(<<Sy(nDisplay), Sy(WS), GenName(MName("port", 0))>>),
                Li(<<Sy(nDisplay), Li(<<Sy(nString), Ch(cRS), Sy(WD)>>), GenName(MName("port", 0))>>)>>)>>)>>)
  ELSE IF kind = "print" THEN
     LET key == PrinterKeyOf(st, n) IN
     IF st.mode = "dist" THEN
        Li(<<GenName(d.name), Li(<<Sy(nLambda), Li(<<Sy(WLine)>>), Li(<<GenName(MName("frame", 2)), Sy(WLine), Ch(n)>>)>>)>>)
     ELSE LET pm == IF key[1] = <<>> THEN st.defaultPort ELSE ALookup(st.files, key[1])[1] IN
          Li(<<GenName(d.name), Li(<<Sy(nMakePrinter), GenName(MName("port", pm[1])), GenName(MName("mutex", pm[2])), TermDatum(key[2])>>)>>)
  ELSE \* matcher: match:n with parameter str:(n-1)
     LET key == MatchKeyOf(st, n)
         prm == WPrefix \o Cp("str:") \o BToCp(BFromInt(n - 1))
         fn == IF HasGlobChar(key[1]) THEN (IF key[2] THEN nFnmatchCi ELSE nFnmatch) ELSE (IF key[2] THEN nStreqCi ELSE nStreq)
     IN Li(<<GenName(d.name), Li(<<Sy(nLambda), Li(<<Sy(prm)>>), Li(<<Sy(fn), St(key[1]), Sy(prm)>>)>>)>>)

ModLipe == Li(<<Sy(Cp("lipe"))>>)  ModFind == Li(<<Sy(Cp("lipe")), Sy(Cp("find"))>>)  ModThreads == Li(<<Sy(Cp("ice-9")), Sy(Cp("threads"))>>)

Compile(t, o, path, now) ==
  LET bad == UnsupportedLeaves(t) IN
  IF bad # {} THEN [st |-> "err", who |-> bad]
  ELSE LET framed == NeedsFramed(t)
           target == WithImplicitPrint(t)
           w == Walk(target, MInit(IF framed THEN "dist" ELSE "local"), now)
           st == w.st
           binds == [i \in 1..Len(st.defs) |-> DefBinding(st, st.defs[i])]
           closes == [i \in 1..Len(st.files) |-> Li(<<Sy(nClosePort), GenName(MName("port", st.files[i][2][1]))>>)]
           fini == IF closes = <<>> THEN <<Bo(TRUE)>> ELSE closes
           thr == IF o.threads = <<>> THEN App0(nThreadCount) ELSE Nu(o.threads)
           scan == Li(<<Sy(nLipeScan), St(path), App0(nMountPath), Li(<<Sy(nLambda), Li(<<>>), w.code>>), App0(nReqAttrs), thr>>)
           prog == Li(<<Sy(nLetStar), Li(Eager(binds)),
                        Li(<<Sy(nDynWind), Li(<<Sy(nLambda), Li(<<>>), Bo(TRUE)>>), Li(<<Sy(nLambda), Li(<<>>), scan>>),
                             Li(<<Sy(nLambda), Li(<<>>)>> \o fini)>>)>>)
           mods == Li(<<Sy(nUseModules), ModLipe, ModFind>> \o (IF framed THEN <<ModThreads>> ELSE <<>>))
       IN [st |-> "ok", data |-> <<mods, prog>>, mgr |-> st,
           iomap |-> [present |-> framed,
                      entries |-> IF framed THEN [i \in 1..Len(st.printers) |->
                                     [tag |-> st.printers[i][2], dest |-> IF st.printers[i][1][1] = <<>> THEN "stdout" ELSE "file",
                                      file |-> st.printers[i][1][1], term |-> st.printers[i][1][2]]] ELSE <<>>]]
=============================================================================
