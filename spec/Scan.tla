-------------------------------- MODULE Scan --------------------------------
(***************************************************************************)
(* The concurrent machine (property C16): N scanner threads, each running  *)
(* the policy on its own files.  A thread's work is the list of atomic     *)
(* steps obtained by executing the REAL emitted program with SchemeEval:   *)
(*   lock m / unlock m / write port bytes / dwrite bytes / stop            *)
(* Variables                                                               *)
(*   vPc[t]    index of the next step of thread t                          *)
(*   vHeld[m]  0 or the thread holding mutex m                             *)
(*   vOut      what has reached the ports: sequence of <<port, bytes>>     *)
(* Actions  Acquire(t), Release(t), Write(t), Skip(t); Done stutters when  *)
(* every thread has finished (so that a real deadlock is reported).        *)
(***************************************************************************)
EXTENDS Backend

\* Steps is a function thread -> sequence of effects; MutexIds the set of mutex ids occurring
StepAt(steps, t, pc) == steps[t][pc[t]]
Finished(steps, t, pc) == pc[t] > Len(steps[t])

ScanInit(steps, threads, mutexes, pc, held, out) ==
  /\ pc = [t \in threads |-> 1]
  /\ held = [m \in mutexes |-> 0]
  /\ out = <<>>

Acquire(steps, t, pc, held, out, pc2, held2, out2) ==
  /\ ~Finished(steps, t, pc) /\ StepAt(steps, t, pc).e = "lock"
  /\ held[StepAt(steps, t, pc).m] = 0
  /\ held2 = [held EXCEPT ![StepAt(steps, t, pc).m] = t]
  /\ pc2 = [pc EXCEPT ![t] = pc[t] + 1] /\ out2 = out
Release(steps, t, pc, held, out, pc2, held2, out2) ==
  /\ ~Finished(steps, t, pc) /\ StepAt(steps, t, pc).e = "unlock"
  /\ held2 = [held EXCEPT ![StepAt(steps, t, pc).m] = 0]
  /\ pc2 = [pc EXCEPT ![t] = pc[t] + 1] /\ out2 = out
Write(steps, t, pc, held, out, pc2, held2, out2) ==
  /\ ~Finished(steps, t, pc) /\ StepAt(steps, t, pc).e \in {"write", "dwrite"}
  /\ LET e == StepAt(steps, t, pc) IN
       out2 = Append(out, <<IF e.e = "dwrite" THEN <<0>> ELSE e.port, e.bytes>>)
  /\ pc2 = [pc EXCEPT ![t] = pc[t] + 1] /\ held2 = held
Skip(steps, t, pc, held, out, pc2, held2, out2) ==
  /\ ~Finished(steps, t, pc) /\ StepAt(steps, t, pc).e \notin {"lock", "unlock", "write", "dwrite"}
  /\ pc2 = [pc EXCEPT ![t] = pc[t] + 1] /\ held2 = held /\ out2 = out

\* a thread releasing a mutex it does not hold is a defect of the emitted code
BadRelease(steps, threads, pc, held) ==
  \E t \in threads : ~Finished(steps, t, pc) /\ StepAt(steps, t, pc).e = "unlock" /\ held[StepAt(steps, t, pc).m] # t

\* ---- what arrived on a port ----
PortBytes(out, port) == Flatten([i \in 1..Len(out) |-> IF out[i][1] = port THEN out[i][2] ELSE <<>>])
PortsOf(out) == {out[i][1] : i \in 1..Len(out)}

\* framed mode: multiset of frames as a function frame -> count
RECURSIVE CountIn(_, _)
CountIn(s, x) == IF s = <<>> THEN 0 ELSE (IF Head(s) = x THEN 1 ELSE 0) + CountIn(Tail(s), x)
SameMultiset(a, b) == Len(a) = Len(b) /\ \A i \in 1..Len(a) : CountIn(a, a[i]) = CountIn(b, a[i])

\* plain mode: can `stream` be cut into whole records, taking each thread's records in order?
\* queues: function thread -> sequence of records (bytes) still to be found
RECURSIVE CanCut(_, _, _)
CanCut(stream, queues, threads) ==
  IF \A t \in threads : queues[t] = <<>> THEN stream = <<>>
  ELSE \E t \in threads :
         /\ queues[t] # <<>>
         /\ StartsWith(stream, Head(queues[t]))
         /\ CanCut(Drop(stream, Len(Head(queues[t]))), [queues EXCEPT ![t] = Tail(queues[t])], threads)
=============================================================================
