------------------------------- MODULE Front -------------------------------
(***************************************************************************)
(* The whole front end: text -> (options, tree) | rejection | unspecified.  *)
(*   [st |-> "ok", o, t, mayrej]   mayrej: rejecting is also acceptable     *)
(*                                 (-maxdepth/-mindepth, C13)               *)
(*   [st |-> "rej", err]           err.why: "arg" (kw, w, fs), "unknown" (w) *)
(*                                 or "grammar"                             *)
(*   [st |-> "unspec"]                                                      *)
(***************************************************************************)
EXTENDS Grammar

ParseText(s) ==
  LET lx == LexRun(s) IN
  IF lx.phase = "unspec" THEN [st |-> "unspec"]
  ELSE IF lx.phase = "rej" THEN
       \* after a construct the implementation may already refuse (mayrej) the error it reports
       \* need not be the one found here: no facts are required of its text
       [st |-> "rej", err |-> IF lx.mayrej THEN [why |-> "any"] ELSE lx.err]
  ELSE LET t == Decl(lx.toks) IN
       IF IsRej(t) THEN [st |-> "rej", err |-> [why |-> "grammar"]]
       ELSE [st |-> "ok", o |-> lx.opts, t |-> t, mayrej |-> lx.mayrej]
=============================================================================
